// C05 -- SparseMatrixBanded (bm / binary) and DenseMatrix (mtx / dm / binary) + typed serialize for both.
#include <c05/c05.hpp>
using namespace c05;

namespace
{
  vl::MatSpec junk_spec() { vl::MatSpec j; j.rows = 2; j.cols = 3; j.t = {{0, 1, 5.0}, {1, 0, -5.0}, {1, 2, 2.5}}; j.classify(); return j; }
  const char* dim_bucket(const vl::MatSpec& m) { Index d = std::max(m.rows, m.cols); return d <= 1 ? "dim:<=1" : d <= 8 ? "dim:2-8" : d <= 40 ? "dim:9-40" : "dim:>40"; }
  std::vector<std::string> base_tags(const vl::MatSpec& m)
  {
    std::vector<std::string> b;
    for(auto& t : m.tags) if(t != "stored_zero" && t != "full_diag" && t != "missing_diag" && t != "empty_col" && t != "banded_layout") b.push_back(t);
    b.push_back(dim_bucket(m));
    return b;
  }
}

VH_FAMILY(banded)
{
  vl::GenOpt o; o.max_dim = c.thorough() ? 300 : 40; o.allow_dim0 = false;
  vl::MatSpec m = c.k < vl::edge_corpus_size() ? vl::edge_matrix(c.k) : vl::gen_matrix(c.rng, o);
  const bool was_entry_free = m.t.empty();
  const int tt = int(c.rng.below(4));
  vh::Rng br(c.rng.next());
  with_types(tt, [&](auto dt, auto it) {
    typedef typename decltype(dt)::type DT; typedef typename decltype(it)::type IT;
    vl::MatSpec mm = m; std::vector<Index> offs; vh::Rng r = br;
    auto a = vl::make_banded<DT, IT>(r, mm, &offs);
    std::vector<std::string> base;
    for(auto& t : mm.tags) if(t.compare(0, 9, "noffsets:") == 0) base.push_back(offs.size() <= 1 ? "noffsets:1" : offs.size() <= 3 ? "noffsets:2-3" : "noffsets:>3");
    base.push_back(mm.rows == mm.cols ? "square" : mm.rows < mm.cols ? "wide" : "tall");
    if(was_entry_free) base.push_back("pattern_entry_free");
    if(c.k < vl::edge_corpus_size()) base.push_back("edge_corpus");
    base.push_back(dim_bucket(mm)); base.push_back(std::string("types:") + tt_name(tt));
    c.desc = vh::J().kv("rows", (unsigned long)mm.rows).kv("cols", (unsigned long)mm.cols).raw("offsets", vh::jarr(offs, 32)).kv("band_entries", (unsigned long)mm.t.size()).str();
    static const std::vector<ModeDesc> modes = {{FileMode::fm_bm, "bm", false, false}, {FileMode::fm_binary, "binary", false, false}};
    Logical none;
    io_roundtrips(c, "banded", base, false, a, modes, [] { vl::MatSpec j = junk_spec(); vh::Rng r2(7); return vl::make_banded<DT, IT>(r2, j); }, none);
    c.tags = base; c.sig = vg::sig_of("banded", base);
  });
}

VH_FAMILY(dm)
{
  vl::GenOpt o; o.max_dim = c.thorough() ? 120 : 24; o.allow_dim0 = false; // DenseMatrix(rows, cols) XASSERTs rows, cols != 0
  vl::MatSpec m = c.k < vl::edge_corpus_size() ? vl::edge_matrix(c.k) : vl::gen_matrix(c.rng, o);
  const int tt = int(c.rng.below(4));
  std::vector<std::string> base = base_tags(m);
  base.push_back(std::string("types:") + tt_name(tt));
  c.desc = m.describe();
  const bool edge = m.rows == 0 || m.cols == 0;
  with_types(tt, [&](auto dt, auto it) {
    typedef typename decltype(dt)::type DT; typedef typename decltype(it)::type IT;
    auto a = vl::make_dense<DT, IT>(m);
    Logical truth; truth.rows = m.rows; truth.cols = m.cols;
    { std::vector<vl::LD> d = m.dense(); for(std::size_t i = 0; i < d.size(); ++i) truth.add(i, double(DT(d[i]))); }
    static const std::vector<ModeDesc> modes = {{FileMode::fm_mtx, "mtx", true, false}, {FileMode::fm_dm, "dm", false, false}, {FileMode::fm_binary, "binary", false, false}};
    io_roundtrips(c, "dm", base, edge, a, modes, [] { return vl::make_dense<DT, IT>(junk_spec()); }, truth);
  });
  c.tags = base; c.sig = vg::sig_of("dm", base);
}

void c05_typed_bd(vh::Ctx& c)
{
  const int kind = int(c.rng.below(2));
  const int t1 = int(c.rng.below(4)), t2 = int(c.rng.below(4));
  vl::GenOpt o; o.max_dim = c.thorough() ? 100 : 24; o.allow_dim0 = false;
  vl::MatSpec m = vl::gen_matrix(c.rng, o);
  static const char* kn[2] = {"banded", "dm"};
  std::vector<std::string> base = base_tags(m);
  base.push_back(std::string("from:") + tt_name(t1)); base.push_back(std::string("to:") + tt_name(t2));
  c.desc = m.describe();
  const bool edge = kind == 1 && (m.rows == 0 || m.cols == 0);
  vh::Rng br(c.rng.next());
  with_types(t1, [&](auto dt, auto it) {
    typedef typename decltype(dt)::type DT; typedef typename decltype(it)::type IT;
    with_types(t2, [&](auto dt2, auto it2) {
      typedef typename decltype(dt2)::type DT2; typedef typename decltype(it2)::type IT2;
      vg::one(c, std::string(kn[kind]) + ".serialize", edge, base, edge_key(base), [&](Rep& rep) {
        if(kind == 0) { vl::MatSpec mm = m; vh::Rng r = br; auto a = vl::make_banded<DT, IT>(r, mm); typed_one<decltype(a), SparseMatrixBanded<DT2, IT2>, DT2, IT2>(rep, "banded", a); }
        else { auto a = vl::make_dense<DT, IT>(m); typed_one<decltype(a), DenseMatrix<DT2, IT2>, DT2, IT2>(rep, "dm", a); }
      });
    });
  });
  c.tags = base; c.sig = vg::sig_of(std::string("typed.") + kn[kind], base);
}
