// C05 -- Pack (kernel/util/pack.hpp): the array packer underneath the binary container format.
//
// One case = one (type class, source element type S, pack type P, destination element type D, swap_bytes) combination
// with a generator-owned value list.  Pack dispatches on the type class of the ARRAY type, so S, P and D are always of
// the same class (signed / unsigned / floating); within a class every width combination is legal, i.e. the pack type may
// be narrower or wider than the array that is packed and the array that is unpacked into.
//
// ORACLES (all harness-side, nothing is taken from the code under test):
//  * encode / encode_raw: return value = count * bytes(P); the written buffer holds, element i at byte i*bytes(P), the
//    little-endian image of the value converted to P (big-endian image when swap_bytes) -- integer images come from
//    mask arithmetic on the 64-bit truth, floating images are memcpy's of harness-owned float/double objects holding the
//    exactly representable truth; bytes before the buffer start and behind the written part keep their canary; the
//    source array is unchanged; estimate_size >= bytes written and element_size = bytes(P).
//  * decode (from the buffer FEAT wrote) / decode_raw (from a buffer the HARNESS built from the expected image, so that
//    a decoder defect cannot be compensated by a matching encoder defect): return value = bytes consumed; destination
//    element i == truth converted S -> P -> D: identical to the truth when it is representable in all three types
//    ('values:representable', incl. the limits of the narrowest type, bit w-1 set, -1, min), the mask-arithmetic
//    wrap-around otherwise ('values:wrap': documented behaviour buf[i] = X_(src[i]), dest[i] = T_(buf[i])); floating
//    values that are not exact in P or D ('values:rounded') must lie within the round-to-nearest bound of every
//    narrowing stage (2^-24 |v| + 2^-150 for F32, 2^-53 |v| + 2^-1075 for F64) and be representable in the narrowest
//    type; +-0, +-inf, denormals, max/lowest are bit-exact, NaN stays NaN; the two sentinels around the destination
//    array and the input buffer are unchanged.
//  * zlib pack types (only in the unit configured with FEAT_HAVE_ZLIB): the harness inflates FEAT's buffer itself and
//    judges the raw image as above; decode is also fed a buffer deflated by the harness.
#pragma once
#include <common/vh.hpp>
#include <kernel/base_header.hpp>
#include <kernel/util/pack.hpp>
#include <limits>
#include <sstream>
#ifdef FEAT_HAVE_ZLIB
#include <zlib.h>
#endif

namespace pk
{
  typedef FEAT::Pack::Type PT;
  typedef unsigned char uc;
  typedef long double LD;
  typedef std::uint64_t u64; typedef std::int64_t i64;

  enum Cls { C_SIGNED = 0, C_UNSIGNED = 1, C_FLOAT = 2 };

  struct Par
  {
    int cls = 0; int ws = 0, wp = 0, wd = 0;   // widths in bits (long double: 80)
    PT ptype = PT::None; bool z = false; bool swap = false;
    std::size_t n = 0; int off = 0; bool nullp = false;
    std::size_t pbytes() const { return std::size_t(wp) / 8; }
    PT full_type() const { return z ? (ptype | PT::Mask_Z) : ptype; }
  };

  inline const char* cls_name(int c) { return c == C_SIGNED ? "signed" : c == C_UNSIGNED ? "unsigned" : "float"; }
  inline std::string el_name(int cls, int w) { return cls == C_FLOAT ? (w == 80 ? std::string("long double") : "f" + std::to_string(w)) : (cls == C_SIGNED ? "i" : "u") + std::to_string(w); }
  inline std::string pt_name(int cls, int w, bool z) { return std::string(z ? "Z" : "") + (cls == C_FLOAT ? "F" : cls == C_SIGNED ? "I" : "U") + std::to_string(w); }
  inline PT pt_of(int cls, int w)
  {
    if(cls == C_FLOAT) return w == 32 ? PT::F32 : PT::F64;
    if(cls == C_SIGNED) return w == 8 ? PT::I8 : w == 16 ? PT::I16 : w == 32 ? PT::I32 : PT::I64;
    return w == 8 ? PT::U8 : w == 16 ? PT::U16 : w == 32 ? PT::U32 : PT::U64;
  }

  // ---------------------------------------------------------------- mask arithmetic (integer truth)
  inline u64 low_bits(u64 b, int w) { return w >= 64 ? b : (b & ((u64(1) << w) - 1)); }
  inline u64 wrap_bits(u64 b, int w, bool sgn)   // value of the low w bits of b, sign- or zero-extended to 64 bit
  {
    b = low_bits(b, w);
    if(sgn && w < 64 && ((b >> (w - 1)) & 1)) b |= ~u64(0) << w;
    return b;
  }
  inline void put_image(std::vector<uc>& out, u64 bits, std::size_t bytes, bool swap)
  {
    for(std::size_t j = 0; j < bytes; ++j)
    {
      const std::size_t k = swap ? bytes - 1 - j : j;
      out.push_back(uc((bits >> (8 * k)) & 0xFF));
    }
  }

  // ---------------------------------------------------------------- harness-side inflate / deflate
#ifdef FEAT_HAVE_ZLIB
  inline bool h_inflate(const uc* src, std::size_t len, std::size_t expect, std::vector<uc>& out, std::string& why)
  {
    out.assign(expect + 64, 0);
    uLongf dl = uLongf(out.size());
    const int rc = ::uncompress(out.data(), &dl, src, uLong(len));
    if(rc != Z_OK) { why = "zlib uncompress returned " + std::to_string(rc); return false; }
    out.resize(std::size_t(dl));
    return true;
  }
  inline std::vector<uc> h_deflate(const std::vector<uc>& raw, int level)
  {
    std::vector<uc> out(std::size_t(::compressBound(uLong(raw.size()))) + 16);
    uLongf dl = uLongf(out.size());
    static const uc dummy = 0;
    if(::compress2(out.data(), &dl, raw.empty() ? &dummy : raw.data(), uLong(raw.size()), level) != Z_OK) throw std::runtime_error("harness: compress2 failed");
    out.resize(std::size_t(dl));
    return out;
  }
#endif

  inline std::string hex(const uc* p, std::size_t n)
  { static const char* d = "0123456789abcdef"; std::string s; for(std::size_t i = 0; i < n; ++i) { s += d[p[i] >> 4]; s += d[p[i] & 15]; } return s; }

  // judge of the raw image: exact[i] != 0 -> the bytes of element i must equal expect[i*pb .. ) ; otherwise loose(i, bytes)
  struct Image
  {
    std::vector<uc> expect; std::vector<char> exact;
    std::function<std::string(std::size_t, const uc*)> loose;   // returns "" when the element image is acceptable
  };

  // ---------------------------------------------------------------- encode driver
  // returns false when the encoded buffer is unusable for the decode stage
  template<typename S>
  bool do_encode(vh::Ctx& c, const Par& p, bool raw_api, const std::vector<S>& src, const Image& img, std::vector<uc>& enc)
  {
    namespace P = FEAT::Pack;
    const std::size_t n = p.n, pb = p.pbytes();
    const PT t = p.full_type();
    // ---- estimate_size / element_size
    c.set_op("pack.estimate_size"); c.event();
    const std::size_t est = P::estimate_size(n, t);
    const std::size_t esz = P::element_size(p.ptype);
    if(esz != pb) c.viol("pack.element_size", "wrong-value", vh::J().kv("got", (unsigned long)esz).kv("expected", (unsigned long)pb).str());
    if(!p.z && est < n * pb) c.viol("pack.estimate_size", "estimate-too-small", vh::J().kv("estimate", (unsigned long)est).kv("raw_bytes", (unsigned long)(n * pb)).str());
    if(est > n * pb + n * pb / 8 + 4096) { c.viol("pack.estimate_size", "estimate-absurd", vh::J().kv("estimate", (unsigned long)est).kv("raw_bytes", (unsigned long)(n * pb)).str()); return false; }
    // ---- encode
    const std::string op = raw_api ? "pack.encode_raw" : "pack.encode";
    c.set_op(op); c.event();
    const std::size_t room = std::max(est, n * pb);
    std::vector<uc> arena(std::size_t(p.off) + room + 32, uc(0xCD));
    std::vector<S> s2 = src;
    const bool np = p.nullp && n == 0;
    void* buf = np ? nullptr : static_cast<void*>(arena.data() + p.off);
    const S* sp = np ? nullptr : s2.data();
    const std::size_t w = raw_api ? P::encode_raw(buf, sp, n, p.ptype, p.swap) : P::encode(buf, sp, est, n, t, p.swap);
    bool ok = true;
    if(!p.z) { if(w != n * pb) { c.viol(op, "return-value", vh::J().kv("got", (unsigned long)w).kv("expected", (unsigned long)(n * pb)).str()); ok = false; } }
    else
    {
      if(w > est) { c.viol("pack.estimate_size", "estimate-too-small", vh::J().kv("estimate", (unsigned long)est).kv("written", (unsigned long)w).str()); ok = false; }
      if((w == 0) != (n == 0)) { c.viol(op, "return-value", vh::J().kv("got", (unsigned long)w).kv("count", (unsigned long)n).str()); ok = false; }
    }
    if(n > 0 && std::memcmp(s2.data(), src.data(), n * sizeof(S)) != 0) c.viol(op, "input-modified", "{}");
    // canaries: everything before the buffer start; behind the written bytes (raw) resp. behind the estimate (zlib)
    {
      const std::size_t tail = std::size_t(p.off) + (p.z ? room : std::min(w, room));
      for(std::size_t i = 0; i < arena.size(); ++i)
      {
        if(i >= std::size_t(p.off) && i < tail) continue;
        if(arena[i] != uc(0xCD)) { c.viol(op, "out-of-bounds-write", vh::J().kv("byte_offset_from_buffer_start", (long)i - (long)p.off).kv("bytes_reported_written", (unsigned long)w).str()); ok = false; break; }
      }
    }
    if(!ok || w > room) return false;
    enc.assign(arena.begin() + p.off, arena.begin() + p.off + long(w));
    // ---- the raw image
    std::vector<uc> raw;
    if(!p.z) raw = enc;
    else
    {
#ifdef FEAT_HAVE_ZLIB
      if(n == 0) raw.clear();
      else
      {
        std::string why;
        if(!h_inflate(enc.data(), enc.size(), n * pb, raw, why)) { c.viol(op, "buffer-not-inflatable", vh::J().kv("why", why).str()); return false; }
      }
#else
      return false;
#endif
    }
    if(raw.size() != n * pb) { c.viol(op, "buffer-bytes", vh::J().kv("raw_size", (unsigned long)raw.size()).kv("expected", (unsigned long)(n * pb)).str()); return false; }
    for(std::size_t i = 0; i < n; ++i)
    {
      const uc* g = raw.data() + i * pb;
      if(img.exact[i])
      {
        if(std::memcmp(g, img.expect.data() + i * pb, pb) != 0)
        { c.viol(op, "buffer-bytes", vh::J().kv("element", (unsigned long)i).kv("got_hex", hex(g, pb)).kv("expected_hex", hex(img.expect.data() + i * pb, pb)).str()); return false; }
      }
      else
      {
        const std::string why = img.loose(i, g);
        if(!why.empty()) { c.viol(op, "buffer-bytes", vh::J().kv("element", (unsigned long)i).kv("got_hex", hex(g, pb)).kv("why", why).str()); return false; }
      }
    }
    return true;
  }

  // ---------------------------------------------------------------- decode driver
  // judge(i, got) -> "" when destination element i is acceptable
  template<typename D, typename Judge>
  void do_decode(vh::Ctx& c, const Par& p, bool raw_api, const std::vector<uc>& enc, D sentinel, Judge&& judge)
  {
    namespace P = FEAT::Pack;
    const std::size_t n = p.n;
    const PT t = p.full_type();
    const std::string op = raw_api ? "pack.decode_raw" : "pack.decode";
    c.set_op(op); c.event();
    std::vector<uc> arena(std::size_t(p.off) + enc.size() + 16, uc(0xCD));
    if(!enc.empty()) std::memcpy(arena.data() + p.off, enc.data(), enc.size());
    const std::vector<uc> arena0 = arena;
    std::vector<D> dst(n + 2, sentinel);
    const bool np = p.nullp && n == 0;
    void* buf = np ? nullptr : static_cast<void*>(arena.data() + p.off);
    D* dp = np ? nullptr : dst.data() + 1;
    const std::size_t r = raw_api ? P::decode_raw(dp, buf, n, p.ptype, p.swap) : P::decode(dp, buf, n, enc.size(), t, p.swap);
    if(r != enc.size()) c.viol(op, "return-value", vh::J().kv("got", (unsigned long)r).kv("expected", (unsigned long)enc.size()).str());
    if(arena != arena0) c.viol(op, "input-modified", "{}");
    if(!(dst[0] == sentinel) || !(dst[n + 1] == sentinel))   // by value: long double has padding bytes
      c.viol(op, "out-of-bounds-write", vh::J().kv("count", (unsigned long)n).str());
    for(std::size_t i = 0; i < n; ++i)
    {
      const std::string why = judge(i, dst[i + 1]);
      if(!why.empty()) { c.viol(op, "wrong-value", "{\"element\":" + std::to_string(i) + "," + why + "}"); break; }
    }
  }

  // ---------------------------------------------------------------- type dispatch
  template<typename T> struct Tg { typedef T type; };
  template<typename F> void with_el(int cls, int w, F&& f)
  {
    if(cls == C_SIGNED) switch(w) { case 8: f(Tg<std::int8_t>{}); break; case 16: f(Tg<std::int16_t>{}); break; case 32: f(Tg<std::int32_t>{}); break; default: f(Tg<std::int64_t>{}); }
    else if(cls == C_UNSIGNED) switch(w) { case 8: f(Tg<std::uint8_t>{}); break; case 16: f(Tg<std::uint16_t>{}); break; case 32: f(Tg<std::uint32_t>{}); break; default: f(Tg<std::uint64_t>{}); }
    else switch(w) { case 32: f(Tg<float>{}); break; case 64: f(Tg<double>{}); break; default: f(Tg<long double>{}); }
  }

  // ---------------------------------------------------------------- integer cases
  // truth: 64-bit patterns `bits` (two's complement for the signed class), every one representable in S
  inline std::vector<u64> gen_int_values(vh::Rng& r, const Par& p, bool wrap, bool edges_first)
  {
    const bool sgn = p.cls == C_SIGNED;
    const int narrow = std::min(p.ws, std::min(p.wp, p.wd));
    const int w = wrap ? p.ws : narrow;                       // all values lie in the range of a w-bit type
    std::vector<u64> pool;                                    // edge values of every width <= w
    for(int v : {8, 16, 32, 64})
    {
      if(v > w) break;
      const u64 top = u64(1) << (v - 1);
      if(sgn) for(u64 b : {top - 1, top - 2, u64(0) - top, u64(0) - top + 1, top >> 1}) pool.push_back(wrap_bits(b, 64, true));
      else for(u64 b : {top, top + 1, top - 1, low_bits(~u64(0), v), low_bits(~u64(0), v) - 1, top | (top >> 1)}) pool.push_back(b);
    }
    for(u64 b : {u64(0), u64(1), u64(2), u64(0x7F), u64(0x80), u64(0xFF)}) pool.push_back(sgn ? wrap_bits(b, w, true) : low_bits(b, w));
    if(sgn) { pool.push_back(~u64(0)); pool.push_back(~u64(0) - 1); }
    std::vector<u64> v(p.n);
    for(std::size_t i = 0; i < p.n; ++i)
    {
      if(edges_first && i < pool.size()) { v[i] = pool[i]; continue; }
      switch(r.below(4))
      {
      case 0: v[i] = r.pick(pool); break;
      case 1: v[i] = r.below(100); if(sgn && r.coin()) v[i] = u64(0) - v[i]; break;
      default: v[i] = wrap_bits(r.next(), w, sgn); break;     // uniform over the whole w-bit range: half have the top bit set
      }
    }
    return v;
  }

  template<typename S, typename D>
  void run_int(vh::Ctx& c, const Par& p, const std::vector<u64>& bits)
  {
    const bool sgn = p.cls == C_SIGNED;
    const std::size_t n = p.n, pb = p.pbytes();
    std::vector<S> src(n);
    for(std::size_t i = 0; i < n; ++i) { src[i] = sgn ? S(i64(bits[i])) : S(bits[i]); }
    // expected image and expected destination
    Image img; img.exact.assign(n, 1);
    std::vector<u64> want(n);
    for(std::size_t i = 0; i < n; ++i)
    {
      const u64 inP = wrap_bits(bits[i], p.wp, sgn);
      put_image(img.expect, low_bits(inP, p.wp), pb, p.swap);
      want[i] = wrap_bits(inP, p.wd, sgn);
    }
    auto judge = [&](std::size_t i, D got) -> std::string {
      const u64 g = sgn ? u64(i64(got)) : u64(got);
      if(g == want[i]) return std::string();
      return sgn ? "\"got\":" + std::to_string(i64(g)) + ",\"expected\":" + std::to_string(i64(want[i])) + ",\"source\":" + std::to_string(i64(bits[i]))
                 : "\"got\":" + std::to_string(g) + ",\"expected\":" + std::to_string(want[i]) + ",\"source\":" + std::to_string(bits[i]);
    };
    const D sentinel = D(0x5A);
    std::vector<uc> enc;
    if(do_encode<S>(c, p, false, src, img, enc)) do_decode<D>(c, p, false, enc, sentinel, judge);
    if(!p.z) { std::vector<uc> enc2; do_encode<S>(c, p, true, src, img, enc2); }
    // decoder alone, on the image built by the harness
    c.tag("buffer:harness-built");
    if(!p.z) do_decode<D>(c, p, true, img.expect, sentinel, judge);
#ifdef FEAT_HAVE_ZLIB
    else if(n > 0) do_decode<D>(c, p, false, h_deflate(img.expect, int(c.rng.range(0, 9))), sentinel, judge);
#endif
  }

  // ---------------------------------------------------------------- floating cases
  inline int prec_of(int w) { return w == 32 ? 24 : w == 64 ? 53 : 64; }
  inline LD round_bound(int w, LD a)      // |fl_w(x) - x| for |x| <= a below the overflow threshold (round to nearest)
  { return w == 32 ? std::ldexp(a, -24) + std::ldexp(1.0L, -150) : std::ldexp(a, -53) + std::ldexp(1.0L, -1075); }
  template<typename T> bool fits(LD v) { return !(v == v) || LD(T(v)) == v; }
  inline bool fits_w(int w, LD v) { return w == 32 ? fits<float>(v) : w == 64 ? fits<double>(v) : true; }

  struct FVal { LD v; int kind; };   // kind 0 exact everywhere, 1 rounded, 2 NaN
  template<typename N> LD as_ld(N x) { return LD(x); }
  // values exactly representable in the w-bit type
  inline LD gen_exact_in(vh::Rng& r, int w)
  {
    const int sig = r.coin(0.3) ? int(r.range(1, 8)) : prec_of(w);
    // random mantissa of `sig` bits, exponent inside the normal range of the type
    u64 m = r.next(); if(sig < 64) m &= (u64(1) << sig) - 1; m |= u64(1) << (sig - 1);
    const int emax = w == 32 ? 127 : w == 64 ? 1023 : 16383, emin = w == 32 ? -126 : w == 64 ? -1022 : -16382;
    int e;
    switch(r.below(5)) { case 0: e = int(r.range(-4, 4)); break; case 1: e = int(r.range(-40, 40)); break; case 2: e = int(r.range(emin, emin + 3)); break; case 3: e = int(r.range(emax - 3, emax)); break; default: e = int(r.range(emin, emax)); }
    LD v = std::ldexp(LD(m), e - (sig - 1));
    return r.coin() ? -v : v;
  }
  template<typename T> void push_limits(std::vector<LD>& pool)
  {
    typedef std::numeric_limits<T> L;
    for(T x : {L::max(), L::lowest(), L::min(), T(-L::min()), L::denorm_min(), T(-L::denorm_min()), L::epsilon(), T(T(1) + L::epsilon()), T(T(1) - L::epsilon() / 2),
               T(L::min() - L::denorm_min()), T(L::denorm_min() * 3), L::infinity(), T(-L::infinity()), T(0), T(-T(0)), T(1), T(-1)})
      pool.push_back(LD(x));
  }
  inline std::vector<FVal> gen_flt_values(vh::Rng& r, const Par& p, int vclass, bool edges_first)
  {
    // vclass 0 representable, 1 rounded, 2 special
    const int narrow = std::min(p.ws, std::min(p.wp, p.wd));
    std::vector<LD> pool;
    if(narrow == 32) push_limits<float>(pool); else if(narrow == 64) push_limits<double>(pool); else push_limits<long double>(pool);
    std::vector<FVal> v(p.n);
    for(std::size_t i = 0; i < p.n; ++i)
    {
      if((edges_first || vclass == 2) && i < pool.size()) { v[i] = {pool[i], 0}; continue; }
      if(vclass == 2 && r.coin(0.3)) { v[i] = {std::numeric_limits<LD>::quiet_NaN(), 2}; continue; }
      if(vclass == 2 || (vclass == 0 && r.coin(0.15))) { v[i] = {r.pick(pool), 0}; continue; }
      if(vclass == 1 && narrow < p.ws && r.coin(0.7))
      {
        // exact in S, (almost surely) not in the narrowest type; magnitude well inside the narrow type's finite range,
        // now and then in its subnormal range
        LD x = gen_exact_in(r, p.ws);
        int e; (void)std::frexp(x, &e);
        const int lim = narrow == 32 ? 120 : 1000;
        if(e > lim || e < -lim) x = std::ldexp(x, -e + int(r.range(-30, 30)));
        if(r.coin(0.1)) { (void)std::frexp(x, &e); x = std::ldexp(x, -e - (narrow == 32 ? 130 : 1030) - int(r.range(0, 15))); }
        if(!fits_w(p.ws, x)) x = 0;                             // (cannot happen: scaling by powers of two inside S's range)
        v[i] = {x, fits_w(narrow, x) ? 0 : 1};
        continue;
      }
      v[i] = {gen_exact_in(r, narrow), 0};
    }
    return v;
  }
  template<typename T> std::string flt_str(T x) { char b[80]; std::snprintf(b, sizeof(b), "\"%.21Lg\"", (long double)x); return b; }

  template<typename S, typename D>
  void run_flt(vh::Ctx& c, const Par& p, const std::vector<FVal>& vals)
  {
    const std::size_t n = p.n, pb = p.pbytes();
    std::vector<S> src(n);
    for(std::size_t i = 0; i < n; ++i) src[i] = S(vals[i].v);   // exact: every truth value is representable in S
    auto unswap = [&](const uc* g) { u64 b = 0; for(std::size_t j = 0; j < pb; ++j) b |= u64(g[j]) << (8 * (p.swap ? pb - 1 - j : j)); return b; };
    auto p_value = [&](const uc* g) -> LD { const u64 b = unswap(g); if(pb == 4) { std::uint32_t u = std::uint32_t(b); float f; std::memcpy(&f, &u, 4); return LD(f); } double d; std::memcpy(&d, &b, 8); return LD(d); };
    Image img; img.exact.assign(n, 0);
    const LD slack = 1.0L + std::ldexp(1.0L, -40);
    for(std::size_t i = 0; i < n; ++i)
    {
      u64 b = 0;
      if(vals[i].kind == 0)
      {
        img.exact[i] = 1;
        if(pb == 4) { const float f = float(vals[i].v); std::uint32_t u; std::memcpy(&u, &f, 4); b = u; }   // exact conversion (value is a float)
        else { const double d = double(vals[i].v); std::memcpy(&b, &d, 8); }
      }
      put_image(img.expect, b, pb, p.swap);
    }
    img.loose = [&](std::size_t i, const uc* g) -> std::string {
      const LD pv = p_value(g);
      if(vals[i].kind == 2) return pv != pv ? std::string() : std::string("NaN was packed as a number");
      const LD v = vals[i].v, b1 = p.wp < p.ws ? round_bound(p.wp, std::fabs(v)) * slack : 0.0L;
      if(!(std::fabs(pv - v) <= b1)) return "packed value " + flt_str(pv) + " is further than the rounding bound from " + flt_str(v);
      return std::string();
    };
    auto judge = [&](std::size_t i, D got) -> std::string {
      const LD g = LD(got), v = vals[i].v;
      if(vals[i].kind == 2) return g != g ? std::string() : "\"got\":" + flt_str(g) + ",\"expected\":\"nan\"";
      if(vals[i].kind == 0)
      {
        if(g == v && std::signbit(g) == std::signbit(v)) return std::string();
        return "\"got\":" + flt_str(g) + ",\"expected\":" + flt_str(v);
      }
      const LD b1 = p.wp < p.ws ? round_bound(p.wp, std::fabs(v)) : 0.0L;
      const LD b2 = p.wd < p.wp ? round_bound(p.wd, std::fabs(v) + b1) : 0.0L;
      const LD tol = (b1 + b2) * slack;
      if(!(std::fabs(g - v) <= tol)) return "\"got\":" + flt_str(g) + ",\"source\":" + flt_str(v) + ",\"rounding_bound\":" + flt_str(tol);
      if(!fits_w(std::min(p.wp, p.wd), g)) return "\"got\":" + flt_str(g) + ",\"why\":\"not representable in the narrowest of pack and destination type\"";
      return std::string();
    };
    const D sentinel = D(12345.5);
    std::vector<uc> enc;
    if(do_encode<S>(c, p, false, src, img, enc)) do_decode<D>(c, p, false, enc, sentinel, judge);
    if(!p.z) { std::vector<uc> enc2; do_encode<S>(c, p, true, src, img, enc2); }
    // decoder alone on a harness-built image: the packed value is the truth rounded by the HARNESS's own conversion only
    // for exactly representable values; rounded elements are replaced by their exact neighbour in P (= FEAT-independent
    // value: the truth with the mantissa cut to P's precision), the judge's bound covers that
    bool any_nan = false; for(auto& x : vals) any_nan = any_nan || x.kind == 2;
    if(any_nan) return;
    std::vector<uc> built;
    for(std::size_t i = 0; i < n; ++i)
    {
      u64 b = 0;
      if(pb == 4) { const float f = float(vals[i].v); std::uint32_t u; std::memcpy(&u, &f, 4); b = u; }
      else { const double d = double(vals[i].v); std::memcpy(&b, &d, 8); }
      put_image(built, b, pb, p.swap);
    }
    c.tag("buffer:harness-built");
    if(!p.z) do_decode<D>(c, p, true, built, sentinel, judge);
#ifdef FEAT_HAVE_ZLIB
    else if(n > 0) do_decode<D>(c, p, false, h_deflate(built, int(c.rng.range(0, 9))), sentinel, judge);
#endif
  }

  // ---------------------------------------------------------------- Pack::Type helpers: names and deduction
  template<typename T> void check_deduct(vh::Ctx& c, int cls, int w)
  {
    c.set_op("pack.deduct_type"); c.event();
    const PT got = FEAT::Pack::deduct_type<T>();
    // long double occupies 16 bytes and is therefore announced as F128 (which is only packable with quadmath): not judged
    if(cls == C_FLOAT && w == 80) return;
    if(got != pt_of(cls, w)) c.viol("pack.deduct_type", "wrong-value", vh::J().kv("got", (unsigned)got).kv("expected", (unsigned)pt_of(cls, w)).str());
  }
  inline void check_type_io(vh::Ctx& c, const Par& p)
  {
    c.set_op("pack.type_io"); c.event();
    for(int zz = 0; zz < 2; ++zz)
    {
      const PT t = zz ? (p.ptype | PT::Mask_Z) : p.ptype;
      const std::string want = pt_name(p.cls, p.wp, zz != 0);
      std::ostringstream os; os << t;
      if(os.str() != want) { c.viol("pack.type_io", "wrong-name", vh::J().kv("got", os.str()).kv("expected", want).str()); continue; }
      std::string lower = want; for(auto& ch : lower) ch = char(std::tolower((unsigned char)ch));
      for(const std::string& text : {want, lower})
      {
        std::istringstream is(text + " 7"); PT back = PT::None; int seven = 0;
        is >> back >> seven;
        if(is.fail() || back != t || seven != 7) c.viol("pack.type_io", "not-read-back", vh::J().kv("text", text).kv("got", (unsigned)back).kv("expected", (unsigned)t).str());
      }
    }
  }

  // ---------------------------------------------------------------- one case
  // combos: signed 4x4x4, unsigned 4x4x4, float 3x2x3 = 146; x swap = 292 enumerated edge cases, random afterwards
  inline constexpr std::uint64_t n_combos() { return 146; }
  inline void combo(std::uint64_t i, Par& p)
  {
    static const int iw[4] = {8, 16, 32, 64}; static const int fw[3] = {32, 64, 80};
    if(i < 128) { p.cls = i < 64 ? C_SIGNED : C_UNSIGNED; i %= 64; p.ws = iw[i / 16]; p.wp = iw[(i / 4) % 4]; p.wd = iw[i % 4]; }
    else { i -= 128; p.cls = C_FLOAT; p.ws = fw[i / 6]; p.wp = fw[(i / 3) % 2]; p.wd = fw[i % 3]; }
  }
  inline const char* rel(int a, int b) { return a < b ? "<" : a > b ? ">" : "="; }

  inline void run_pack_case(vh::Ctx& c, bool z)
  {
    Par p; p.z = z;
    const bool enumerated = c.k < 2 * n_combos();
    combo(enumerated ? c.k % n_combos() : c.rng.below(n_combos()), p);
    p.swap = enumerated ? c.k >= n_combos() : c.rng.coin();
    p.ptype = pt_of(p.cls, p.wp);
    const std::size_t nmax = c.thorough() ? 400 : 40;
    if(enumerated) p.n = 24 + std::size_t(c.rng.below(8));
    else switch(c.rng.below(10)) { case 0: p.n = 0; break; case 1: p.n = 1; break; case 2: p.n = std::size_t(c.rng.range(2, 8)); break; default: p.n = std::size_t(c.rng.range(2, long(nmax))); }
    if(!enumerated && c.rng.coin(0.02)) p.n = std::size_t(c.rng.range(long(nmax), long(nmax) * 8));
    p.off = c.rng.coin(0.35) ? int(c.rng.range(1, 7)) : 0;
    p.nullp = p.n == 0 && c.rng.coin();
    const int narrow = std::min(p.ws, std::min(p.wp, p.wd));
    int vclass = 0;                                            // 0 representable, 1 wrap / rounded, 2 special (float)
    if(!enumerated)
    {
      if(p.cls == C_FLOAT) vclass = int(c.rng.below(3)); else vclass = int(c.rng.below(3) == 0);
      if(vclass == 1 && narrow == p.ws) vclass = 0;
    }
    c.tag(std::string("class:") + cls_name(p.cls));
    c.tag("src:" + el_name(p.cls, p.ws)); c.tag("pack:" + pt_name(p.cls, p.wp, z)); c.tag("dst:" + el_name(p.cls, p.wd));
    c.tag(std::string("src") + rel(p.ws, p.wp) + "pack"); c.tag(std::string("pack") + rel(p.wp, p.wd) + "dst");
    c.tag(p.swap ? "swap:on" : "swap:off");
    c.tag(p.n == 0 ? "size0" : p.n == 1 ? "size1" : p.n <= 8 ? "len:2-8" : p.n <= 40 ? "len:9-40" : "len:>40");
    if(p.off) c.tag("misaligned");
    if(p.nullp) c.tag("nullptr");
    if(enumerated) c.tag("edge-corpus");
    vh::J d; d.kv("source_type", el_name(p.cls, p.ws)).kv("pack_type", pt_name(p.cls, p.wp, z)).kv("destination_type", el_name(p.cls, p.wd))
      .kv("swap_bytes", p.swap).kv("count", (unsigned long)p.n).kv("buffer_offset", p.off);
    if(p.cls != C_FLOAT)
    {
      const std::vector<u64> bits = gen_int_values(c.rng, p, vclass == 1, enumerated);
      bool wraps = false;
      for(u64 b : bits) wraps = wraps || wrap_bits(wrap_bits(b, p.wp, p.cls == C_SIGNED), p.wd, p.cls == C_SIGNED) != b;
      c.tag(wraps ? "values:wrap" : "values:representable");
      bool top = false; for(u64 b : bits) top = top || ((b >> (narrow - 1)) & 1);
      if(top) c.tag(p.cls == C_SIGNED ? "has:negative" : "has:top-bit-of-narrowest");
      if(p.cls == C_SIGNED) { std::vector<long long> s; for(u64 b : bits) s.push_back((long long)i64(b)); d.raw("values", vh::jarr(s, 24)); }
      else { std::vector<unsigned long long> s; for(u64 b : bits) s.push_back(b); d.raw("values", vh::jarr(s, 24)); }
      c.desc = d.str();
      with_el(p.cls, p.ws, [&](auto ts) { typedef typename decltype(ts)::type S; check_deduct<S>(c, p.cls, p.ws);
        with_el(p.cls, p.wd, [&](auto td) { typedef typename decltype(td)::type D; run_int<S, D>(c, p, bits); }); });
    }
    else
    {
      const std::vector<FVal> vals = gen_flt_values(c.rng, p, vclass, enumerated);
      bool rounded = false, nan = false, special = vclass == 2;
      for(auto& x : vals) { rounded = rounded || x.kind == 1; nan = nan || x.kind == 2; }
      c.tag(rounded ? "values:rounded" : special ? "values:special" : "values:representable");
      if(nan) c.tag("has:nan");
      { vh::J a('['); for(std::size_t i = 0; i < vals.size() && i < 24; ++i) a.add_raw(flt_str(vals[i].v)); d.raw("values", a.str()); }
      c.desc = d.str();
      with_el(p.cls, p.ws, [&](auto ts) { typedef typename decltype(ts)::type S; check_deduct<S>(c, p.cls, p.ws);
        with_el(p.cls, p.wd, [&](auto td) { typedef typename decltype(td)::type D; run_flt<S, D>(c, p, vals); }); });
    }
    check_type_io(c, p);
    { auto t = c.tags; t.erase(std::remove(t.begin(), t.end(), std::string("buffer:harness-built")), t.end()); t.erase(std::remove(t.begin(), t.end(), std::string("misaligned")), t.end()); t.erase(std::remove(t.begin(), t.end(), std::string("nullptr")), t.end());
      std::sort(t.begin(), t.end()); c.sig = z ? "pack_z" : "pack"; for(auto& x : t) c.sig += "|" + x; }
  }
} // namespace pk
