// C05 -- unit c05z, family 'pack_z': the Pack cases of pack.hpp with the zlib pack types (ZI8..ZI64, ZU8..ZU64, ZF32, ZF64);
// the harness inflates FEAT's buffers with the system zlib itself and feeds decode with buffers it deflated itself.
#include <c05/pack.hpp>
#ifndef FEAT_HAVE_ZLIB
#error "unit c05z must be configured with FEAT_HAVE_ZLIB"
#endif

VH_FAMILY(pack_z)
{
  pk::run_pack_case(c, true);
}
