// C05 -- vectors: DenseVector, DenseVectorBlocked, SparseVector, SparseVectorBlocked x every file mode they accept,
// through stringstream / BinaryStream / real files, + typed serialize for the vector kinds.
#include <c05/c05.hpp>
using namespace c05;

namespace
{
  std::string describe_vec(const std::vector<double>& v) { return vh::J().kv("size", (unsigned long)v.size()).raw("values", vh::jarr(v, 24)).str(); }
  std::string describe_sv(const SVSpec& s) { return vh::J().kv("size", (unsigned long)s.n).kv("used", (unsigned long)s.idx.size()).kv("build", s.build ? "inserted" : "arrays").raw("indices", vh::jarr(s.idx, 24)).raw("values", vh::jarr(s.val, 24)).str(); }

  const std::vector<ModeDesc> dv_modes = {{FileMode::fm_exp, "exp", true, false}, {FileMode::fm_mtx, "mtx", true, false}, {FileMode::fm_dv, "dv", false, false}, {FileMode::fm_binary, "binary", false, false}};
  const std::vector<ModeDesc> dvb_modes = {{FileMode::fm_exp, "exp", true, false}, {FileMode::fm_mtx, "mtx", true, false}, {FileMode::fm_dvb, "dvb", false, false}, {FileMode::fm_binary, "binary", false, false}};
  const std::vector<ModeDesc> sv_modes = {{FileMode::fm_mtx, "mtx", true, false}, {FileMode::fm_sv, "sv", false, false}, {FileMode::fm_binary, "binary", false, false}};
  const std::vector<ModeDesc> svb_modes = {{FileMode::fm_svb, "svb", false, false}, {FileMode::fm_binary, "binary", false, false}};
}

VH_FAMILY(dv)
{
  const Index n = c.k == 0 ? 0 : c.k == 1 ? 1 : gen_len(c.rng);
  const int st = int(c.rng.below(4));
  const std::vector<double> v = vl::gen_vec(c.rng, n, st);
  const int tt = int(c.rng.below(4));
  std::vector<std::string> base = {len_bucket(n), std::string("types:") + tt_name(tt), "vstyle:" + std::to_string(st)};
  c.desc = describe_vec(v);
  with_types(tt, [&](auto dt, auto it) {
    typedef typename decltype(dt)::type DT; typedef typename decltype(it)::type IT;
    auto a = mk_dv<DT, IT>(v);
    Logical truth; truth.rows = n; for(Index i = 0; i < n; ++i) truth.add(i, double(DT(v[i])));
    io_roundtrips(c, "dv", base, n == 0, a, dv_modes, [] { return mk_dv<DT, IT>({9.0, -9.0, 9.5}); }, truth);
  });
  c.tags = base; c.sig = vg::sig_of("dv", base);
}

VH_FAMILY(dvb)
{
  const int bs = c.rng.coin() ? 2 : 3;
  const Index nb = c.k == 0 ? 0 : c.k == 1 ? 1 : gen_len(c.rng);
  const int st = int(c.rng.below(4));
  const std::vector<double> v = vl::gen_vec(c.rng, nb * Index(bs), st);
  const int tt = int(c.rng.below(4));
  std::vector<std::string> base = {len_bucket(nb), std::string("types:") + tt_name(tt), "bs:" + std::to_string(bs), "vstyle:" + std::to_string(st)};
  c.desc = describe_vec(v);
  with_types(tt, [&](auto dt, auto it) {
    typedef typename decltype(dt)::type DT; typedef typename decltype(it)::type IT;
    Logical truth; truth.rows = v.size(); for(Index i = 0; i < Index(v.size()); ++i) truth.add(i, double(DT(v[i])));
    if(bs == 2) { auto a = mk_dvb<DT, IT, 2>(v); io_roundtrips(c, "dvb", base, nb == 0, a, dvb_modes, [] { return mk_dvb<DT, IT, 2>({9.0, -9.0, 9.5, 1.0}); }, truth); }
    else { auto a = mk_dvb<DT, IT, 3>(v); io_roundtrips(c, "dvb", base, nb == 0, a, dvb_modes, [] { return mk_dvb<DT, IT, 3>({9.0, -9.0, 9.5}); }, truth); }
  });
  c.tags = base; c.sig = vg::sig_of("dvb", base);
}

VH_FAMILY(sv)
{
  const Index n = c.k == 0 ? 0 : c.k == 1 ? 1 : gen_len(c.rng);
  SVSpec s = gen_sv(c.rng, n, 1);
  if(c.k == 0) s.build = 0; if(c.k == 2) { s.idx.clear(); s.val.clear(); }
  const int tt = int(c.rng.below(4));
  std::vector<std::string> base = {len_bucket(n), std::string("types:") + tt_name(tt), s.build ? "build:inserted" : "build:arrays"};
  if(s.idx.empty()) base.push_back("nnz0"); else if(s.idx.size() == n) base.push_back("all_stored");
  c.desc = describe_sv(s);
  vh::Rng r2(c.rng.next());
  with_types(tt, [&](auto dt, auto it) {
    typedef typename decltype(dt)::type DT; typedef typename decltype(it)::type IT;
    auto a = mk_sv<DT, IT>(s, r2);
    Logical truth; truth.rows = n; for(std::size_t i = 0; i < s.idx.size(); ++i) truth.add(s.idx[i], double(DT(s.val[i])));
    io_roundtrips(c, "sv", base, n == 0 || s.idx.empty(), a, sv_modes, [] { SVSpec j; j.n = 5; j.idx = {1, 3}; j.val = {7.0, -7.0}; return mk_sv<DT, IT>(j, vh::Rng(1)); }, truth);
  });
  c.tags = base; c.sig = vg::sig_of("sv", base);
}

VH_FAMILY(svb)
{
  const int bs = c.rng.coin() ? 2 : 3;
  const Index n = c.k == 0 ? 0 : c.k == 1 ? 1 : gen_len(c.rng);
  SVSpec s = gen_sv(c.rng, n, bs);
  if(c.k == 0) s.build = 0; if(c.k == 2) { s.idx.clear(); s.val.clear(); }
  const int tt = int(c.rng.below(4));
  std::vector<std::string> base = {len_bucket(n), std::string("types:") + tt_name(tt), "bs:" + std::to_string(bs)};
  if(s.idx.empty()) base.push_back("nnz0");
  c.desc = describe_sv(s);
  with_types(tt, [&](auto dt, auto it) {
    typedef typename decltype(dt)::type DT; typedef typename decltype(it)::type IT;
    Logical none;
    auto junk2 = [] { SVSpec j; j.n = 5; j.idx = {1, 3}; j.val = {7.0, -7.0, 1.0, 2.0}; return mk_svb<DT, IT, 2>(j); };
    auto junk3 = [] { SVSpec j; j.n = 5; j.idx = {1, 3}; j.val = {7.0, -7.0, 1.0, 2.0, 3.0, 4.0}; return mk_svb<DT, IT, 3>(j); };
    if(bs == 2) { auto a = mk_svb<DT, IT, 2>(s); io_roundtrips(c, "svb", base, true, a, svb_modes, junk2, none); }
    else { auto a = mk_svb<DT, IT, 3>(s); io_roundtrips(c, "svb", base, true, a, svb_modes, junk3, none); }
  });
  c.tags = base; c.sig = vg::sig_of("svb", base);
}

// typed serialize for the vector kinds (called by the 'typed' family in main.cpp)
void c05_typed_vec(vh::Ctx& c)
{
  const int kind = int(c.rng.below(4));
  const int t1 = int(c.rng.below(4)), t2 = int(c.rng.below(4));
  const Index n = c.rng.coin(0.08) ? 0 : gen_len(c.rng, false);
  static const char* kn[4] = {"dv", "dvb", "sv", "svb"};
  std::vector<std::string> base = {len_bucket(n), std::string("from:") + tt_name(t1), std::string("to:") + tt_name(t2)};
  const std::vector<double> v = vl::gen_vec(c.rng, n * 2, int(c.rng.below(4)));
  SVSpec s = gen_sv(c.rng, n, kind == 3 ? 2 : 1);
  if((kind >= 2) && s.idx.empty()) base.push_back("nnz0");
  c.desc = kind < 2 ? describe_vec(v) : describe_sv(s);
  const bool edge = n == 0 || (kind >= 2 && s.idx.empty());
  vh::Rng r2(c.rng.next());
  with_types(t1, [&](auto dt, auto it) {
    typedef typename decltype(dt)::type DT; typedef typename decltype(it)::type IT;
    with_types(t2, [&](auto dt2, auto it2) {
      typedef typename decltype(dt2)::type DT2; typedef typename decltype(it2)::type IT2;
      vg::one(c, std::string(kn[kind]) + ".serialize", edge, base, edge_key(base), [&](Rep& rep) {
        switch(kind)
        {
        case 0: { std::vector<double> w(v.begin(), v.begin() + long(n)); auto a = mk_dv<DT, IT>(w); typed_one<decltype(a), DenseVector<DT2, IT2>, DT2, IT2>(rep, "dv", a); break; }
        case 1: { auto a = mk_dvb<DT, IT, 2>(v); typed_one<decltype(a), DenseVectorBlocked<DT2, IT2, 2>, DT2, IT2>(rep, "dvb", a); break; }
        case 2: { auto a = mk_sv<DT, IT>(s, r2); typed_one<decltype(a), SparseVector<DT2, IT2>, DT2, IT2>(rep, "sv", a); break; }
        default: { auto a = mk_svb<DT, IT, 2>(s); typed_one<decltype(a), SparseVectorBlocked<DT2, IT2, 2>, DT2, IT2>(rep, "svb", a); break; }
        }
      });
    });
  });
  c.tags = base; c.sig = vg::sig_of(std::string("typed.") + kn[kind], base);
}
