// C05 -- SparseMatrixBCSR (bcsr / binary read back as BCSR; MatrixMarket written by BCSR and read back by the
// scalar CSR reader, BCSR itself has no mtx reader) + typed serialize.
#include <c05/c05.hpp>
using namespace c05;

namespace
{
  vl::MatSpec gen_block_spec(vh::Ctx& c)
  {
    if(c.k < vl::edge_corpus_size()) return vl::edge_matrix(c.k);
    vl::GenOpt o; o.max_dim = c.thorough() ? 130 : 14; o.allow_dim0 = true;
    return vl::gen_matrix(c.rng, o);
  }
  vl::MatSpec junk_spec() { vl::MatSpec j; j.rows = 2; j.cols = 3; j.t = {{0, 1, 5.0}, {1, 0, -5.0}, {1, 2, 2.5}}; j.classify(); return j; }
  const char* dim_bucket(const vl::MatSpec& m) { Index d = std::max(m.rows, m.cols); return d <= 1 ? "bdim:<=1" : d <= 8 ? "bdim:2-8" : d <= 40 ? "bdim:9-40" : "bdim:>40"; }
  std::vector<std::string> base_tags(const vl::MatSpec& bm)
  {
    std::vector<std::string> b;
    for(auto& t : bm.tags) if(t == "entry_free" || t == "empty_row" || t == "empty_col" || t == "dim0") b.push_back("block_" + t);
    for(auto& t : bm.tags) if(t == "entry_free" || t == "dim0" || t == "edge_corpus" || t == "full" || t == "1x1") b.push_back(t);
    b.push_back(dim_bucket(bm));
    return b;
  }
  bool is_edge(const vl::MatSpec& m) { return m.t.empty() || m.rows == 0 || m.cols == 0; }

  template<typename DT, typename IT, int BH, int BW>
  void bcsr_case(vh::Ctx& c, std::vector<std::string> base, const vl::MatSpec& bm)
  {
    vl::MatSpec sm;
    auto a = vl::make_bcsr<DT, IT, BH, BW>(c.rng, bm, sm);
    base.push_back("bs:" + std::to_string(BH) + "x" + std::to_string(BW));
    c.desc = vh::J().raw("block_pattern", bm.describe(24)).kv("scalar_rows", (unsigned long)sm.rows).kv("scalar_cols", (unsigned long)sm.cols).str();
    const bool edge = is_edge(bm);
    static const std::vector<ModeDesc> modes = {{FileMode::fm_bcsr, "bcsr", false, false}, {FileMode::fm_binary, "binary", false, false}};
    Logical none;
    vh::Rng jr(12345);
    io_roundtrips(c, "bcsr", base, edge, a, modes, [&] { vl::MatSpec js; vh::Rng r = jr; return vl::make_bcsr<DT, IT, BH, BW>(r, junk_spec(), js); }, none);
    // MatrixMarket: written by BCSR in scalar coordinates, read back by the CSR reader
    const Logical truth = logical_of_spec<DT>(sm);
    const ModeDesc md = {FileMode::fm_mtx, "mtx", true, false};
    std::vector<Sub> subs = {{0, T_SS, int(c.rng.below(3))}, {0, T_FILE, int(c.rng.below(3))}};
    const Snap before = snap(a);
    const std::string ek = edge_key(base);
    auto pathfn = [&](int i) { return tmpdir() + "/k" + std::to_string((unsigned long long)c.k) + "_bcsrmtx_" + std::to_string(i) + ".mtx"; };
    vg::group(c, "bcsr.mtx", edge, int(subs.size()),
      [&](int i) { return vg::with(base, {transport_name(subs[std::size_t(i)].transport), target_name(subs[std::size_t(i)].target), "reader:csr"}); },
      [&](int i) { return std::string(transport_name(subs[std::size_t(i)].transport)) + ek; },
      [&](Rep& rep, int i) {
        std::string text;
        auto junk = [] { vl::MatSpec j = junk_spec(); return vl::make_csr<DT, IT>(j); };
        SparseMatrixCSR<DT, IT> b = write_read<decltype(a), SparseMatrixCSR<DT, IT>>(a, md, subs[std::size_t(i)], pathfn(i), junk, text);
        { NoRep quiet; if(!same_bits(quiet, "bcsr.mtx", before, snap(a))) rep.viol("bcsr.mtx", "input-modified", "{}"); }
        cmp_text<DT>(rep, "bcsr.mtx", truth, logical(b), printed_digits(text));
      });
    if(edge) for(int i = 0; i < int(subs.size()); ++i) ::unlink(pathfn(i).c_str());
    c.tags = base; c.sig = vg::sig_of("bcsr", base);
  }
}

VH_FAMILY(bcsr)
{
  vl::MatSpec bm = gen_block_spec(c);
  const int tt = int(c.rng.below(4)), shape = int(c.rng.below(3));
  std::vector<std::string> base = base_tags(bm);
  base.push_back(std::string("types:") + tt_name(tt));
  with_types(tt, [&](auto dt, auto it) {
    typedef typename decltype(dt)::type DT; typedef typename decltype(it)::type IT;
    if(shape == 0) bcsr_case<DT, IT, 2, 2>(c, base, bm);
    else if(shape == 1) bcsr_case<DT, IT, 2, 3>(c, base, bm);
    else bcsr_case<DT, IT, 3, 1>(c, base, bm);
  });
}

void c05_typed_bcsr(vh::Ctx& c)
{
  const int t1 = int(c.rng.below(4)), t2 = int(c.rng.below(4));
  vl::GenOpt o; o.max_dim = c.thorough() ? 60 : 14; o.allow_dim0 = true;
  vl::MatSpec bm = c.rng.coin(0.1) ? vl::edge_matrix(c.rng.below(vl::edge_corpus_size())) : vl::gen_matrix(c.rng, o);
  std::vector<std::string> base = base_tags(bm);
  base.push_back(std::string("from:") + tt_name(t1)); base.push_back(std::string("to:") + tt_name(t2)); base.push_back("bs:2x3");
  c.desc = bm.describe(24);
  with_types(t1, [&](auto dt, auto it) {
    typedef typename decltype(dt)::type DT; typedef typename decltype(it)::type IT;
    with_types(t2, [&](auto dt2, auto it2) {
      typedef typename decltype(dt2)::type DT2; typedef typename decltype(it2)::type IT2;
      vl::MatSpec sm;
      auto a = vl::make_bcsr<DT, IT, 2, 3>(c.rng, bm, sm);
      vg::one(c, "bcsr.serialize", is_edge(bm), base, edge_key(base), [&](Rep& rep) {
        typed_one<decltype(a), SparseMatrixBCSR<DT2, IT2, 2, 3>, DT2, IT2>(rep, "bcsr", a);
      });
    });
  });
  c.tags = base; c.sig = vg::sig_of("typed.bcsr", base);
}
