// C05 -- family 'pack': Pack::encode / encode_raw / decode / decode_raw / estimate_size / element_size / deduct_type and
// the Pack::Type stream operators for every raw pack type x source element type x destination element type (see pack.hpp)
#include <c05/pack.hpp>

VH_FAMILY(pack)
{
  pk::run_pack_case(c, false);
}
