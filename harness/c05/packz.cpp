// C05 -- unit c05z (generated configuration WITH FEAT_HAVE_ZLIB, linked against the system zlib):
//  pack_z  : (packz_pack.cpp) the Pack cases of pack.hpp with the zlib pack types ZI8..ZI64, ZU8..ZU64, ZF32, ZF64
//  typed_z : K<DT,IT>::serialize<DT2,IT2>(config) -> K<DT2,IT2>(buffer) / deserialize<DT2,IT2>(buffer) and
//            write_out(fm_binary) -> read_from(fm_binary) for DenseVector, SparseVector, SparseMatrixCSR under the four
//            compression configurations {elements, indices} x {off, zlib}; with zlib every array goes through
//            Pack::encode / Pack::decode.  Oracle: the bitwise snapshot comparator of c05.hpp.
#include <c05/c05.hpp>
using namespace c05;

namespace
{
  SerialConfig make_cfg(int v)
  {
    SerialConfig cfg(false, false);
    if(v == 0) return SerialConfig();
    if(v == 2) cfg.set_elements_compression(CompressionModes::elements_zlib);
    if(v == 3) cfg.set_indices_compression(CompressionModes::indices_zlib);
    return cfg;
  }
  const char* cfg_name(int v) { return v == 0 ? "cfg:default(zlib)" : v == 1 ? "cfg:off" : v == 2 ? "cfg:elements-zlib" : "cfg:indices-zlib"; }
  u64 cfg_word(int v)
  {
    const u64 eo = u64(CompressionModes::elements_off), ez = u64(CompressionModes::elements_zlib), io = u64(CompressionModes::indices_off), iz = u64(CompressionModes::indices_zlib);
    return v == 0 ? (ez | iz) : v == 1 ? (eo | io) : v == 2 ? (ez | io) : (eo | iz);
  }

  template<typename KA, typename KB, typename DT2, typename IT2>
  void typed_cfg(Rep& rep, const std::string& kind, const KA& a, int cfgv)
  {
    const std::string op = kind + ".serialize";
    const Snap before = snap(a);
    const SerialConfig cfg = make_cfg(cfgv);
    std::vector<char> buf = a.template serialize<DT2, IT2>(cfg);
    if(buf.size() < 11 * sizeof(u64)) { rep.viol(op, "buffer-too-small", vh::J().kv("bytes", (unsigned long)buf.size()).str()); return; }
    { u64 sz; std::memcpy(&sz, buf.data(), sizeof(sz)); if(sz != buf.size()) rep.viol(op, "size-field", vh::J().kv("field", (unsigned long)sz).kv("buffer", (unsigned long)buf.size()).str()); }
    { u64 cw; std::memcpy(&cw, buf.data() + 10 * sizeof(u64), sizeof(cw)); if(cw != cfg_word(cfgv)) rep.viol(op, "compression-field", vh::J().kv("field", (unsigned long)cw).kv("expected", (unsigned long)cfg_word(cfgv)).str()); }
    { NoRep quiet; if(!same_bits(quiet, op, before, snap(a))) rep.viol(op, "input-modified", "{}"); }
    {
      std::vector<char> copy = buf;
      KB b(copy);
      same_bits(rep, kind + ".deserialize_ctor", before, snap(b));
    }
    {
      KA c2;
      c2.template deserialize<DT2, IT2>(buf);
      same_bits(rep, kind + ".deserialize", before, snap(c2));
    }
    if(cfgv == 0)
    {
      // the stream form of the binary container format uses the default configuration (= zlib in this unit)
      std::stringstream ss(std::ios::in | std::ios::out | std::ios::binary);
      a.write_out(FileMode::fm_binary, ss);
      KA d;
      d.read_from(FileMode::fm_binary, ss);
      same_bits(rep, kind + ".binary", before, snap(d));
    }
  }
}

VH_FAMILY(typed_z)
{
  const int kind = int(c.k % 3);
  const int t1 = int(c.rng.below(4)), t2 = int(c.rng.below(4));
  const int cfgv = c.k < 12 ? int((c.k / 3) % 4) : int(c.rng.below(4));
  static const char* kn[3] = {"dv", "sv", "csr"};
  std::vector<std::string> base;
  // ---- inputs
  Index n = c.k < 3 ? 0 : c.k < 6 ? 1 : (c.rng.coin(0.08) ? 0 : gen_len(c.rng, false));
  const std::vector<double> v = vl::gen_vec(c.rng, n, int(c.rng.below(4)));
  SVSpec s = gen_sv(c.rng, n, 1);
  // wide indices: a sparse vector of length ~2^32 whose stored indices lie in [2^31, 2^32) (representable in u32)
  const bool wide = kind == 1 && c.k >= 12 && c.rng.coin(0.3);
  if(wide)
  {
    const u64 lo = u64(1) << 31, hi = (u64(1) << 32) - 1;
    s.n = Index(hi); s.build = 0;
    std::set<u64> ix; const int cnt = int(c.rng.range(1, 30));
    for(int i = 0; i < cnt; ++i) ix.insert(c.rng.coin(0.2) ? (c.rng.coin() ? lo : hi - 1) : lo + c.rng.below(hi - lo));
    s.idx.assign(ix.begin(), ix.end()); s.val.clear();
    for(std::size_t i = 0; i < s.idx.size(); ++i) s.val.push_back(vl::gen_value(c.rng, 0));
    n = s.n;
  }
  vl::GenOpt o; o.max_dim = c.thorough() ? 200 : 40; o.allow_dim0 = true;
  const vl::MatSpec m = kind != 2 ? vl::MatSpec() : (c.k < 12 || c.rng.coin(0.1)) ? vl::edge_matrix(c.rng.below(vl::edge_corpus_size())) : vl::gen_matrix(c.rng, o);
  bool edge = false;
  if(kind == 2)
  {
    for(auto& t : m.tags) if(t != "stored_zero" && t != "full_diag" && t != "missing_diag") base.push_back(t);
    const Index d = std::max(m.rows, m.cols); base.push_back(d <= 1 ? "dim:<=1" : d <= 8 ? "dim:2-8" : d <= 40 ? "dim:9-40" : "dim:>40");
    edge = m.t.empty() || m.rows == 0 || m.cols == 0;
    c.desc = m.describe();
  }
  else
  {
    base.push_back(wide ? "len:2^32" : len_bucket(n));
    if(wide) base.push_back("wide-index");
    if(kind == 1 && s.idx.empty()) base.push_back("nnz0");
    edge = n == 0 || (kind == 1 && s.idx.empty());
    c.desc = kind == 0 ? vh::J().kv("size", (unsigned long)v.size()).raw("values", vh::jarr(v, 24)).str()
                       : vh::J().kv("size", (unsigned long)s.n).kv("used", (unsigned long)s.idx.size()).raw("indices", vh::jarr(s.idx, 24)).raw("values", vh::jarr(s.val, 24)).str();
  }
  base.push_back(std::string("from:") + tt_name(wide ? (t1 & 2) : t1)); base.push_back(std::string("to:") + tt_name(t2));
  base.push_back(cfg_name(cfgv));
  vh::Rng r2(c.rng.next());
  with_types(wide ? (t1 & 2) : t1, [&](auto dt, auto it) {   // wide indices need a 64-bit source index type
    typedef typename decltype(dt)::type DT; typedef typename decltype(it)::type IT;
    with_types(t2, [&](auto dt2, auto it2) {
      typedef typename decltype(dt2)::type DT2; typedef typename decltype(it2)::type IT2;
      vg::one(c, std::string(kn[kind]) + ".serialize", edge, base, edge_key(base) + cfg_name(cfgv), [&](Rep& rep) {
        switch(kind)
        {
        case 0: { auto a = mk_dv<DT, IT>(v); typed_cfg<decltype(a), DenseVector<DT2, IT2>, DT2, IT2>(rep, "dv", a, cfgv); break; }
        case 1: { auto a = mk_sv<DT, IT>(s, r2); typed_cfg<decltype(a), SparseVector<DT2, IT2>, DT2, IT2>(rep, "sv", a, cfgv); break; }
        default: { auto a = vl::make_csr<DT, IT>(m); typed_cfg<decltype(a), SparseMatrixCSR<DT2, IT2>, DT2, IT2>(rep, "csr", a, cfgv); break; }
        }
      });
    });
  });
  c.tags = base; c.sig = vg::sig_of(std::string("typed_z.") + kn[kind], base);
}

VH_FEAT_MAIN
