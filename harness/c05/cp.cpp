// C05 -- Control::CheckpointControl: 1-8 objects of mixed kinds under random identifiers, registered and restored in
// independent random orders, saved to a BinaryStream and to a .cp file; restored object k must be bit-identical to ITS
// original.  Also hosts the 'typed' family dispatcher and main().
#include <c05/c05.hpp>
#include <c05/cpobj.hpp>
using namespace c05;

void c05_typed_vec(vh::Ctx&); void c05_typed_csr(vh::Ctx&); void c05_typed_bcsr(vh::Ctx&); void c05_typed_bd(vh::Ctx&);

VH_FAMILY(typed)
{
  switch(c.k % 4)
  {
  case 0: c05_typed_vec(c); break;
  case 1: c05_typed_csr(c); break;
  case 2: c05_typed_bcsr(c); break;
  default: c05_typed_bd(c); break;
  }
}

VH_FAMILY(checkpoint)
{
  const int nobj = c.k < 9 ? 1 : int(c.rng.range(1, 8));
  std::vector<std::unique_ptr<Obj>> objs; std::vector<std::string> ids;
  for(int i = 0; i < nobj; ++i)
  {
    const int kind = c.k < 9 ? int(c.k) : int(c.rng.below(9));
    objs.push_back(c.rng.coin() ? make_plain_obj<double, u64>(c, kind) : make_plain_obj<float, u32>(c, kind));
    ids.push_back(gen_id(c.rng, ids));
  }
  std::set<std::string> kinds;
  for(auto& o : objs) kinds.insert(o->kind.substr(0, o->kind.find('<')));
  std::vector<std::string> base = {nobj == 1 ? "nobj:1" : nobj <= 4 ? "nobj:2-4" : "nobj:5-8", "kinds:" + std::to_string(kinds.size())};
  if(nobj == 1) base.push_back("only:" + *kinds.begin());
  run_checkpoint_case(c, "checkpoint", objs, ids, base);
}

VH_FEAT_MAIN
