// C05 -- Control::CheckpointControl: 1-8 objects of mixed kinds under random identifiers, registered and restored in
// independent random orders, saved to a BinaryStream and to a .cp file; restored object k must be bit-identical to ITS
// original.  Also hosts the 'typed' family dispatcher and main().
#include <c05/c05.hpp>
#include <control/checkpoint_control.hpp>
using namespace c05;

void c05_typed_vec(vh::Ctx&); void c05_typed_csr(vh::Ctx&); void c05_typed_bcsr(vh::Ctx&); void c05_typed_bd(vh::Ctx&);

VH_FAMILY(typed)
{
  switch(c.k % 4)
  {
  case 0: c05_typed_vec(c); break;
  case 1: c05_typed_csr(c); break;
  case 2: c05_typed_bcsr(c); break;
  default: c05_typed_bd(c); break;
  }
}

namespace
{
  using FEAT::Control::CheckpointControl;
  struct Obj
  {
    std::string kind; Snap orig; bool edge = false; std::string summary;
    virtual ~Obj() {}
    virtual void add(CheckpointControl& cp, const String& id) = 0;
    virtual void restore(CheckpointControl& cp, const String& id, bool add) = 0;
    virtual void reset_target(bool junk) = 0;
    virtual Snap source_now() const = 0;
    virtual Snap restored() const = 0;
    virtual bool feat_equal() const = 0;
  };
  template<typename C>
  struct ObjT : Obj
  {
    C a, b; std::function<C()> junkfn;
    ObjT(const std::string& k, C&& a_, std::function<C()> j) : a(std::move(a_)), junkfn(j) { kind = k; orig = snap(a); }
    void add(CheckpointControl& cp, const String& id) override { cp.add_object(id, a); }
    void restore(CheckpointControl& cp, const String& id, bool add_) override { cp.restore_object(id, b, add_); }
    void reset_target(bool junk) override { b = junk ? junkfn() : C(); }
    Snap source_now() const override { return snap(a); }
    Snap restored() const override { return snap(b); }
    bool feat_equal() const override { return a == b; }
  };
  vl::MatSpec junk_spec() { vl::MatSpec j; j.rows = 2; j.cols = 3; j.t = {{0, 1, 5.0}, {1, 0, -5.0}, {1, 2, 2.5}}; j.classify(); return j; }

  template<typename DT, typename IT>
  std::unique_ptr<Obj> make_obj(vh::Ctx& c, int kind)
  {
    const std::string ty = std::is_same<DT, double>::value ? "<double,u64>" : "<float,u32>";
    vl::GenOpt o; o.max_dim = c.thorough() ? 80 : 16; o.allow_dim0 = false;
    std::unique_ptr<Obj> r;
    switch(kind)
    {
    case 0: { const Index n = gen_len(c.rng); auto v = vl::gen_vec(c.rng, n, int(c.rng.below(4)));
        r.reset(new ObjT<DenseVector<DT, IT>>("dv" + ty, mk_dv<DT, IT>(v), [] { return mk_dv<DT, IT>({9.0, -9.0, 9.5}); })); r->edge = n == 0; r->summary = "size " + std::to_string(n); break; }
    case 1: { const Index n = gen_len(c.rng); auto v = vl::gen_vec(c.rng, n * 2, int(c.rng.below(4)));
        r.reset(new ObjT<DenseVectorBlocked<DT, IT, 2>>("dvb" + ty, mk_dvb<DT, IT, 2>(v), [] { return mk_dvb<DT, IT, 2>({9.0, -9.0, 9.5, 1.0}); })); r->edge = n == 0; r->summary = "blocks " + std::to_string(n); break; }
    case 2: { const Index n = gen_len(c.rng); SVSpec s = gen_sv(c.rng, n, 1);
        r.reset(new ObjT<SparseVector<DT, IT>>("sv" + ty, mk_sv<DT, IT>(s, vh::Rng(c.rng.next())), [] { SVSpec j; j.n = 5; j.idx = {1, 3}; j.val = {7.0, -7.0}; return mk_sv<DT, IT>(j, vh::Rng(1)); }));
        r->edge = n == 0 || s.idx.empty(); r->summary = "size " + std::to_string(n) + " used " + std::to_string(s.idx.size()); break; }
    case 3: { const Index n = gen_len(c.rng); SVSpec s = gen_sv(c.rng, n, 2);
        r.reset(new ObjT<SparseVectorBlocked<DT, IT, 2>>("svb" + ty, mk_svb<DT, IT, 2>(s), [] { SVSpec j; j.n = 5; j.idx = {1, 3}; j.val = {7.0, -7.0, 1.0, 2.0}; return mk_svb<DT, IT, 2>(j); }));
        r->edge = n == 0 || s.idx.empty(); r->summary = "size " + std::to_string(n) + " used " + std::to_string(s.idx.size()); break; }
    case 4: { vl::MatSpec m = vl::gen_matrix(c.rng, o);
        r.reset(new ObjT<SparseMatrixCSR<DT, IT>>("csr" + ty, vl::make_csr<DT, IT>(m), [] { return vl::make_csr<DT, IT>(junk_spec()); }));
        r->edge = m.t.empty(); r->summary = std::to_string(m.rows) + "x" + std::to_string(m.cols) + " nnz " + std::to_string(m.t.size()); break; }
    case 5: { o.max_dim = c.thorough() ? 30 : 8; vl::MatSpec bm = vl::gen_matrix(c.rng, o), sm;
        r.reset(new ObjT<SparseMatrixBCSR<DT, IT, 2, 3>>("bcsr" + ty, vl::make_bcsr<DT, IT, 2, 3>(c.rng, bm, sm), [] { vl::MatSpec js; vh::Rng jr(5); return vl::make_bcsr<DT, IT, 2, 3>(jr, junk_spec(), js); }));
        r->edge = bm.t.empty(); r->summary = "blocks " + std::to_string(bm.rows) + "x" + std::to_string(bm.cols) + " nnzb " + std::to_string(bm.t.size()); break; }
    case 6: { vl::MatSpec m = vl::gen_matrix(c.rng, o);
        r.reset(new ObjT<SparseMatrixBanded<DT, IT>>("banded" + ty, vl::make_banded<DT, IT>(c.rng, m), [] { vl::MatSpec j = junk_spec(); vh::Rng jr(7); return vl::make_banded<DT, IT>(jr, j); }));
        r->summary = std::to_string(m.rows) + "x" + std::to_string(m.cols); break; }
    case 7: { vl::MatSpec m = vl::gen_matrix(c.rng, o);
        r.reset(new ObjT<SparseMatrixCSCR<DT, IT>>("cscr" + ty, vl::make_cscr<DT, IT>(m), [] { return vl::make_cscr<DT, IT>(junk_spec()); }));
        r->edge = m.t.empty(); r->summary = std::to_string(m.rows) + "x" + std::to_string(m.cols) + " nnz " + std::to_string(m.t.size()); break; }
    default: { o.max_dim = c.thorough() ? 40 : 12; vl::MatSpec m = vl::gen_matrix(c.rng, o);
        r.reset(new ObjT<DenseMatrix<DT, IT>>("dm" + ty, vl::make_dense<DT, IT>(m), [] { return vl::make_dense<DT, IT>(junk_spec()); }));
        r->summary = std::to_string(m.rows) + "x" + std::to_string(m.cols); break; }
    }
    return r;
  }
  std::string gen_id(vh::Rng& r, const std::vector<std::string>& have)
  {
    static const char cs[] = "abcdefgXYZ0123456789_-./: ";
    for(;;)
    {
      std::string id;
      if(!have.empty() && r.coin(0.35)) id = r.pick(have);                 // extends an existing identifier (prefix relation)
      if(!have.empty() && r.coin(0.15) && r.pick(have).size() > 1) { const std::string& h = r.pick(have); id = h.substr(0, 1 + r.below(h.size() - 1)); } // proper prefix
      const int n = int(r.range(id.empty() ? 1 : 0, 12));
      for(int i = 0; i < n; ++i) id += cs[r.below(sizeof(cs) - 1)];
      if(!id.empty() && std::find(have.begin(), have.end(), id) == have.end()) return id;
    }
  }
}

VH_FAMILY(checkpoint)
{
  const int nobj = c.k < 9 ? 1 : int(c.rng.range(1, 8));
  std::vector<std::unique_ptr<Obj>> objs; std::vector<std::string> ids;
  for(int i = 0; i < nobj; ++i)
  {
    const int kind = c.k < 9 ? int(c.k) : int(c.rng.below(9));
    objs.push_back(c.rng.coin() ? make_obj<double, u64>(c, kind) : make_obj<float, u32>(c, kind));
    ids.push_back(gen_id(c.rng, ids));
  }
  bool edge = false; std::set<std::string> kinds;
  for(auto& o : objs) { edge = edge || o->edge; kinds.insert(o->kind.substr(0, o->kind.find('<'))); }
  std::vector<std::string> base = {nobj == 1 ? "nobj:1" : nobj <= 4 ? "nobj:2-4" : "nobj:5-8", "kinds:" + std::to_string(kinds.size())};
  if(edge) base.push_back("has_empty_object");
  if(nobj == 1) base.push_back("only:" + *kinds.begin());
  { vh::J arr('['); for(int i = 0; i < nobj; ++i) arr.add_raw(vh::J().kv("id", ids[std::size_t(i)]).kv("kind", objs[std::size_t(i)]->kind).kv("shape", objs[std::size_t(i)]->summary).str()); c.desc = vh::J().raw("objects", arr.str()).str(); }
  // pre-drawn choices of the two sub-operations (0: BinaryStream, 1: .cp file)
  struct Plan { std::vector<int> reg, res; std::vector<char> junk, add; bool same_control; };
  Plan plan[2];
  for(int s = 0; s < 2; ++s)
  {
    plan[s].reg.resize(std::size_t(nobj)); plan[s].res.resize(std::size_t(nobj));
    for(int i = 0; i < nobj; ++i) plan[s].reg[std::size_t(i)] = plan[s].res[std::size_t(i)] = i;
    c.rng.shuffle(plan[s].reg); c.rng.shuffle(plan[s].res);
    for(int i = 0; i < nobj; ++i) { plan[s].junk.push_back(c.rng.coin()); plan[s].add.push_back(c.rng.coin()); }
    plan[s].same_control = c.rng.coin(0.3);
  }
  tmpdir();
  auto pathfn = [&](int s) { return tmpdir() + "/k" + std::to_string((unsigned long long)c.k) + "_cp" + std::to_string(s); };
  auto opfn = [&](int s) { return std::string(s == 0 ? "checkpoint.binarystream" : "checkpoint.file"); };
  vg::group_ops(c, opfn, edge, 2,
    [&](int s) { return vg::with(base, {plan[s].same_control ? "loader:same_control" : "loader:new_control"}); },
    [&](int s) { return std::string(plan[s].same_control ? "same" : "new") + (edge ? "|has_empty_object" : ""); },
    [&](Rep& rep, int s) {
      const Plan& p = plan[s]; const std::string op = opfn(s);
      auto comm = FEAT::Dist::Comm::world();
      CheckpointControl cp(comm), cp2(comm);
      for(int i : p.reg) objs[std::size_t(i)]->add(cp, String(ids[std::size_t(i)]));
      { // every identifier is listed
        const String lst = cp.get_identifier_list(); std::vector<std::string> got; std::size_t q = 0;
        while(q <= lst.size()) { std::size_t e = lst.find('\n', q); if(e == std::string::npos) e = lst.size(); got.push_back(lst.substr(q, e - q)); q = e + 1; }
        std::vector<std::string> want = ids; std::sort(want.begin(), want.end()); std::sort(got.begin(), got.end());
        if(got != want) rep.viol(op, "identifier-list", vh::J().kv("got", std::string(lst)).str());
      }
      for(int i = 0; i < nobj; ++i) objs[std::size_t(i)]->reset_target(p.junk[std::size_t(i)] != 0);
      CheckpointControl& loader = p.same_control ? cp : cp2;
      if(s == 0)
      {
        FEAT::BinaryStream bs;
        cp.save(bs);
        bs.seekg(0);
        loader.load(bs);
      }
      else
      {
        const std::string path = pathfn(s) + ".cp";
        cp.save(String(path));
        loader.load(String(path));
        ::unlink(path.c_str());
      }
      for(int i : p.res) objs[std::size_t(i)]->restore(loader, String(ids[std::size_t(i)]), !p.same_control && p.add[std::size_t(i)] != 0);
      NoRep quiet;
      for(int i = 0; i < nobj; ++i)
      {
        Obj& o = *objs[std::size_t(i)];
        if(!same_bits(quiet, op, o.orig, o.source_now())) rep.viol(op, "input-modified", vh::J().kv("object", i).kv("kind", o.kind).str());
        const Snap got = o.restored();
        if(!same_bits(quiet, op, o.orig, got))
        {
          int sibling = -1;
          for(int j = 0; j < nobj; ++j) if(j != i && same_bits(quiet, op, objs[std::size_t(j)]->orig, got)) sibling = j;
          rep.viol(op, sibling >= 0 ? "restored-a-sibling" : "restored-object-differs",
            vh::J().kv("object", i).kv("kind", o.kind).kv("id", ids[std::size_t(i)]).kv("shape", o.summary).kv("equals_object", sibling).str());
          same_bits(rep, op, o.orig, got); // detail record: which table / array / position
        }
      }
    });
  if(edge) ::unlink((pathfn(1) + ".cp").c_str());
  c.tags = base; c.sig = vg::sig_of("checkpoint", base);
}

VH_FEAT_MAIN
