// C05 -- SparseMatrixCSR (csr / binary / MatrixMarket general + symmetric) and SparseMatrixCSCR (cscr / binary),
// + typed serialize for both.
#include <c05/c05.hpp>
using namespace c05;

namespace
{
  vl::MatSpec gen_spec(vh::Ctx& c, bool allow_sym, bool& sym)
  {
    sym = false;
    if(c.k < vl::edge_corpus_size()) return vl::edge_matrix(c.k);
    vl::GenOpt o; o.max_dim = c.thorough() ? 400 : 40; o.allow_dim0 = true;
    if(allow_sym && c.rng.coin(0.25))
    { // symmetric matrix: mirror the lower triangle
      o.square = true; o.allow_dim0 = false;
      vl::MatSpec m = vl::gen_matrix(c.rng, o);
      std::vector<vl::Trip> t;
      for(auto& x : m.t) if(x.r >= x.c) { t.push_back(x); if(x.r != x.c) t.push_back({x.c, x.r, x.v}); }
      m.t = t; m.sort_unique(); m.tags.clear(); m.classify(); m.tag("symmetric");
      sym = true;
      return m;
    }
    return vl::gen_matrix(c.rng, o);
  }
  vl::MatSpec junk_spec() { vl::MatSpec j; j.rows = 2; j.cols = 3; j.t = {{0, 1, 5.0}, {1, 0, -5.0}, {1, 2, 2.5}}; return j; }
  const char* dim_bucket(const vl::MatSpec& m) { Index d = std::max(m.rows, m.cols); return d <= 1 ? "dim:<=1" : d <= 8 ? "dim:2-8" : d <= 40 ? "dim:9-40" : "dim:>40"; }
  // the structural tags used by known-finding matching + a size bucket; value-only tags are dropped from the signature
  std::vector<std::string> base_tags(const vl::MatSpec& m)
  {
    std::vector<std::string> b;
    for(auto& t : m.tags) if(t != "stored_zero" && t != "full_diag" && t != "missing_diag") b.push_back(t);
    b.push_back(dim_bucket(m));
    return b;
  }
  bool is_edge(const vl::MatSpec& m) { return m.t.empty() || m.rows == 0 || m.cols == 0; }
}

VH_FAMILY(csr)
{
  bool sym = false;
  vl::MatSpec m = gen_spec(c, true, sym);
  const int tt = int(c.rng.below(4));
  std::vector<std::string> base = base_tags(m);
  base.push_back(std::string("types:") + tt_name(tt));
  c.desc = m.describe();
  std::vector<ModeDesc> modes = {{FileMode::fm_mtx, "mtx", true, false}, {FileMode::fm_csr, "csr", false, false}, {FileMode::fm_binary, "binary", false, false}};
  if(sym) modes.push_back({FileMode::fm_mtx, "mtx_symmetric", true, true});
  with_types(tt, [&](auto dt, auto it) {
    typedef typename decltype(dt)::type DT; typedef typename decltype(it)::type IT;
    auto a = vl::make_csr<DT, IT>(m);
    io_roundtrips(c, "csr", base, is_edge(m), a, modes, [] { return vl::make_csr<DT, IT>(junk_spec()); }, logical_of_spec<DT>(m));
  });
  c.tags = base; c.sig = vg::sig_of("csr", base);
}

VH_FAMILY(cscr)
{
  bool sym = false;
  vl::MatSpec m = gen_spec(c, false, sym);
  const int tt = int(c.rng.below(4));
  std::vector<std::string> base = base_tags(m);
  base.push_back(std::string("types:") + tt_name(tt));
  c.desc = m.describe();
  const std::vector<ModeDesc> modes = {{FileMode::fm_cscr, "cscr", false, false}, {FileMode::fm_binary, "binary", false, false}};
  with_types(tt, [&](auto dt, auto it) {
    typedef typename decltype(dt)::type DT; typedef typename decltype(it)::type IT;
    auto a = vl::make_cscr<DT, IT>(m);
    Logical none;
    io_roundtrips(c, "cscr", base, is_edge(m), a, modes, [] { return vl::make_cscr<DT, IT>(junk_spec()); }, none);
  });
  c.tags = base; c.sig = vg::sig_of("cscr", base);
}

void c05_typed_csr(vh::Ctx& c)
{
  const int kind = int(c.rng.below(2));
  const int t1 = int(c.rng.below(4)), t2 = int(c.rng.below(4));
  vl::GenOpt o; o.max_dim = c.thorough() ? 200 : 40; o.allow_dim0 = true;
  vl::MatSpec m = c.rng.coin(0.1) ? vl::edge_matrix(c.rng.below(vl::edge_corpus_size())) : vl::gen_matrix(c.rng, o);
  static const char* kn[2] = {"csr", "cscr"};
  std::vector<std::string> base = base_tags(m);
  base.push_back(std::string("from:") + tt_name(t1)); base.push_back(std::string("to:") + tt_name(t2));
  c.desc = m.describe();
  with_types(t1, [&](auto dt, auto it) {
    typedef typename decltype(dt)::type DT; typedef typename decltype(it)::type IT;
    with_types(t2, [&](auto dt2, auto it2) {
      typedef typename decltype(dt2)::type DT2; typedef typename decltype(it2)::type IT2;
      vg::one(c, std::string(kn[kind]) + ".serialize", is_edge(m), base, edge_key(base), [&](Rep& rep) {
        if(kind == 0) { auto a = vl::make_csr<DT, IT>(m); typed_one<decltype(a), SparseMatrixCSR<DT2, IT2>, DT2, IT2>(rep, "csr", a); }
        else { auto a = vl::make_cscr<DT, IT>(m); typed_one<decltype(a), SparseMatrixCSCR<DT2, IT2>, DT2, IT2>(rep, "cscr", a); }
      });
    });
  });
  c.tags = base; c.sig = vg::sig_of(std::string("typed.") + kn[kind], base);
}
