// C05 -- checkpoints of COMPOSED containers (TupleVector with 1..5 components incl. nested Power/Tuple, PowerVector,
// TupleMatrix, TupleDiagMatrix, PowerRow/Col/Diag/FullMatrix, SaddlePointMatrix) mixed with plain containers under
// random identifiers, so that composed records appear first, in the middle and last in identifier (= record) order.
#include <c05/cpobj.hpp>
using namespace c05;

namespace
{
  typedef double D; typedef u64 I; typedef float F; typedef u32 J;
  typedef TupleVector<DenseVector<D, I>> TV1;
  typedef TupleVector<DenseVector<D, I>, DenseVectorBlocked<D, I, 2>> TV2;   // (SparseVector cannot be a TupleVector component: it has no ContainerType)
  typedef TupleVector<DenseVectorBlocked<F, J, 2>, DenseVector<F, J>, DenseVectorBlocked<F, J, 3>> TV3;
  typedef TupleVector<DenseVector<D, I>, DenseVectorBlocked<D, I, 3>, DenseVector<D, I>, DenseVectorBlocked<D, I, 2>> TV4;
  typedef TupleVector<DenseVector<F, J>, PowerVector<DenseVector<F, J>, 2>, TupleVector<DenseVector<F, J>, DenseVectorBlocked<F, J, 2>>, DenseVectorBlocked<F, J, 3>, DenseVector<F, J>> TV5;
  typedef PowerVector<DenseVectorBlocked<F, J, 2>, 1> PV1;
  typedef PowerVector<DenseVector<D, I>, 3> PV3;
  typedef PowerVector<TupleVector<DenseVector<D, I>, DenseVector<D, I>>, 2> PVT;
  typedef TupleMatrixRow<SparseMatrixCSR<D, I>, SparseMatrixCSCR<D, I>> TRow;
  typedef TupleMatrix<TRow, TRow> TM;
  typedef TupleDiagMatrix<SparseMatrixCSR<D, I>, SparseMatrixCSCR<D, I>, SparseMatrixCSR<D, I>> TDM;
  typedef PowerDiagMatrix<SparseMatrixCSR<F, J>, 2> PDM;
  typedef PowerFullMatrix<SparseMatrixCSR<D, I>, 2, 2> PFM;
  typedef PowerRowMatrix<SparseMatrixCSR<F, J>, 3> PRM;
  typedef PowerColMatrix<SparseMatrixCSR<D, I>, 2> PCM;
  typedef SaddlePointMatrix<SparseMatrixCSR<D, I>, SparseMatrixCSCR<D, I>> SPM;
  const int n_meta = 16;
  std::unique_ptr<Obj> make_meta(vh::Ctx& c, int kind)
  {
    switch(kind)
    {
    case 0: return make_meta_obj<TV1>(c, "tuple_vector1");
    case 1: return make_meta_obj<TV2>(c, "tuple_vector2");
    case 2: return make_meta_obj<TV3>(c, "tuple_vector3");
    case 3: return make_meta_obj<TV4>(c, "tuple_vector4");
    case 4: return make_meta_obj<TV5>(c, "tuple_vector5_nested");
    case 5: return make_meta_obj<PV1>(c, "power_vector1");
    case 6: return make_meta_obj<PV3>(c, "power_vector3");
    case 7: return make_meta_obj<PVT>(c, "power_vector_of_tuple");
    case 8: return make_meta_obj<TM>(c, "tuple_matrix2x2");
    case 9: return make_meta_obj<TDM>(c, "tuple_diag_matrix3");
    case 10: return make_meta_obj<PDM>(c, "power_diag_matrix2");
    case 11: return make_meta_obj<PFM>(c, "power_full_matrix2x2");
    case 12: return make_meta_obj<PRM>(c, "power_row_matrix3");
    case 13: return make_meta_obj<PCM>(c, "power_col_matrix2");
    case 14: return make_meta_obj<SPM>(c, "saddle_point_matrix");
    default: return make_meta_obj<TV4>(c, "tuple_vector4");
    }
  }
}

VH_FAMILY(checkpoint_meta)
{
  // edge corpus: every composed kind alone, then every composed kind followed / preceded by a plain record
  const bool alone = c.k < std::uint64_t(n_meta);
  const bool pair = !alone && c.k < std::uint64_t(3 * n_meta);
  const int nobj = alone ? 1 : pair ? 2 : int(c.rng.range(1, 8));
  std::vector<std::unique_ptr<Obj>> objs; std::vector<std::string> ids;
  int nmeta = 0;
  for(int i = 0; i < nobj; ++i)
  {
    bool meta = alone || (pair ? i == 0 : c.rng.coin(0.55));
    if(!pair && !alone && i == nobj - 1 && nmeta == 0) meta = true;   // at least one composed object
    if(meta) { objs.push_back(make_meta(c, alone || pair ? int(c.k % n_meta) : int(c.rng.below(n_meta)))); ++nmeta; }
    else { const int kind = int(c.rng.below(9)); objs.push_back(c.rng.coin() ? make_plain_obj<double, u64>(c, kind) : make_plain_obj<float, u32>(c, kind)); }
  }
  if(pair)
  { // composed record first (k < 2*n_meta) resp. last in identifier order
    const bool first = c.k < std::uint64_t(2 * n_meta);
    ids = first ? std::vector<std::string>{"a-composed", "b-plain"} : std::vector<std::string>{"z-composed", "b-plain"};
  }
  else for(int i = 0; i < nobj; ++i) ids.push_back(gen_id(c.rng, ids));
  // position of the composed records in identifier (= record) order
  std::vector<int> order(static_cast<std::size_t>(nobj)); for(int i = 0; i < nobj; ++i) order[std::size_t(i)] = i;
  std::sort(order.begin(), order.end(), [&](int x, int y) { return ids[std::size_t(x)] < ids[std::size_t(y)]; });
  bool mfirst = objs[std::size_t(order.front())]->meta, mlast = objs[std::size_t(order.back())]->meta, mmid = false;
  for(int q = 1; q + 1 < nobj; ++q) mmid = mmid || objs[std::size_t(order[std::size_t(q)])]->meta;
  std::vector<std::string> base = {nobj == 1 ? "nobj:1" : nobj <= 4 ? "nobj:2-4" : "nobj:5-8", nmeta == nobj ? "all_composed" : "mixed"};
  if(nobj > 1) { if(mfirst) base.push_back("composed_first"); if(mmid) base.push_back("composed_middle"); if(mlast) base.push_back("composed_last"); }
  if(alone || pair) base.push_back("kind:" + objs[0]->kind);
  run_checkpoint_case(c, "checkpoint_meta", objs, ids, base);
}
