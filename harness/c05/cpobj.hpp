// C05 -- checkpoint objects: type-erased holder for plain and composed (meta) containers, leaf-wise bit snapshots,
// direct monitor of the Checkpointable interface contract.
#pragma once
#include <c05/c05.hpp>
#include <control/checkpoint_control.hpp>
#include <kernel/lafem/tuple_vector.hpp>
#include <kernel/lafem/power_vector.hpp>
#include <kernel/lafem/tuple_matrix.hpp>
#include <kernel/lafem/tuple_diag_matrix.hpp>
#include <kernel/lafem/power_row_matrix.hpp>
#include <kernel/lafem/power_col_matrix.hpp>
#include <kernel/lafem/power_diag_matrix.hpp>
#include <kernel/lafem/power_full_matrix.hpp>
#include <kernel/lafem/saddle_point_matrix.hpp>
#include <memory>

namespace c05
{
  using FEAT::Control::CheckpointControl;

  // ------------------------------------------------------------------ leaf traversal of composed containers
  // visit(x, f) calls f(leaf) for every plain container below x, in storage order (non-const access only)
  template<typename L, typename F> void visit(L& leaf, F& f) { f(leaf); }
  template<typename F, typename A> void visit(TupleVector<A>& t, F& f) { visit(t.first(), f); }
  template<typename F, typename A, typename B, typename... R> void visit(TupleVector<A, B, R...>& t, F& f) { visit(t.first(), f); visit(t.rest(), f); }
  template<typename F, typename S, int n> void visit(PowerVector<S, n>& t, F& f) { for(int i = 0; i < n; ++i) visit(t.get(i), f); }
  template<typename F, typename A> void visit(TupleMatrixRow<A>& t, F& f) { visit(t.first(), f); }
  template<typename F, typename A, typename B, typename... R> void visit(TupleMatrixRow<A, B, R...>& t, F& f) { visit(t.first(), f); visit(t.rest(), f); }
  template<typename F, typename A> void visit(TupleMatrix<A>& t, F& f) { visit(t.first(), f); }
  template<typename F, typename A, typename B, typename... R> void visit(TupleMatrix<A, B, R...>& t, F& f) { visit(t.first(), f); visit(t.rest(), f); }
  template<typename F, typename A> void visit(TupleDiagMatrix<A>& t, F& f) { visit(t.first(), f); }
  template<typename F, typename A, typename B, typename... R> void visit(TupleDiagMatrix<A, B, R...>& t, F& f) { visit(t.first(), f); visit(t.rest(), f); }
  template<typename F, typename S, int n> void visit(PowerRowMatrix<S, n>& t, F& f) { for(int j = 0; j < n; ++j) visit(t.get(0, j), f); }
  template<typename F, typename S, int n> void visit(PowerColMatrix<S, n>& t, F& f) { for(int i = 0; i < n; ++i) visit(t.get(i, 0), f); }
  template<typename F, typename S, int n> void visit(PowerDiagMatrix<S, n>& t, F& f) { for(int i = 0; i < n; ++i) visit(t.get(i, i), f); }
  template<typename F, typename S, int h, int w> void visit(PowerFullMatrix<S, h, w>& t, F& f) { for(int i = 0; i < h; ++i) for(int j = 0; j < w; ++j) visit(t.get(i, j), f); }
  template<typename F, typename A, typename B, typename D> void visit(SaddlePointMatrix<A, B, D>& t, F& f) { visit(t.block_a(), f); visit(t.block_b(), f); visit(t.block_d(), f); }

  struct Snapper { std::vector<Snap>& out; template<typename L> void operator()(L& leaf) { out.push_back(snap(leaf)); } };
  template<typename C> std::vector<Snap> leaves(C& x) { std::vector<Snap> v; Snapper s{v}; visit(x, s); return v; }
  // leaf-wise bitwise comparator
  template<typename R> bool same_leaves(R& rep, const std::string& op, const std::vector<Snap>& want, const std::vector<Snap>& got)
  {
    if(want.size() != got.size()) { rep.viol(op, "layout", vh::J().kv("table", "leaf-count").kv("got", (unsigned long)got.size()).kv("expected", (unsigned long)want.size()).str()); return false; }
    for(std::size_t i = 0; i < want.size(); ++i) if(!same_bits(rep, op, want[i], got[i])) { rep.viol(op, "leaf", vh::J().kv("leaf_index", (unsigned long)i).kv("leaves", (unsigned long)want.size()).str()); return false; }
    return true;
  }

  // fills every leaf with fresh random content (leaf kinds used by the composed types of this harness)
  struct Filler
  {
    vh::Rng& r; Index maxd; bool* edge; double p_empty;
    Index len() { Index n = vl::gen_dim(r, maxd, false); if(r.coin(p_empty)) { n = 0; if(edge) *edge = true; } return n; }
    template<typename DT, typename IT> void operator()(DenseVector<DT, IT>& x) { x = mk_dv<DT, IT>(vl::gen_vec(r, len(), int(r.below(4)))); }
    template<typename DT, typename IT, int BS> void operator()(DenseVectorBlocked<DT, IT, BS>& x) { x = mk_dvb<DT, IT, BS>(vl::gen_vec(r, len() * Index(BS), int(r.below(4)))); }
    template<typename DT, typename IT> void operator()(SparseVector<DT, IT>& x)
    { SVSpec s = gen_sv(r, len(), 1); if(r.coin(p_empty)) { s.idx.clear(); s.val.clear(); } if(s.idx.empty() && edge) *edge = true; x = mk_sv<DT, IT>(s, vh::Rng(r.next())); }
    vl::MatSpec spec() { vl::GenOpt o; o.max_dim = maxd; o.allow_dim0 = false; o.allow_entry_free = r.coin(p_empty * 4); vl::MatSpec m = vl::gen_matrix(r, o); if(m.t.empty() && edge) *edge = true; return m; }
    template<typename DT, typename IT> void operator()(SparseMatrixCSR<DT, IT>& x) { x = vl::make_csr<DT, IT>(spec()); }
    template<typename DT, typename IT> void operator()(SparseMatrixCSCR<DT, IT>& x) { x = vl::make_cscr<DT, IT>(spec()); }
    template<typename DT, typename IT> void operator()(DenseMatrix<DT, IT>& x) { x = vl::make_dense<DT, IT>(spec()); }
  };

  // ------------------------------------------------------------------ type-erased checkpoint object
  struct Obj
  {
    std::string kind; std::vector<Snap> orig; bool edge = false; bool meta = false; std::string summary;
    virtual ~Obj() {}
    virtual void add(CheckpointControl& cp, const String& id) = 0;
    virtual void restore(CheckpointControl& cp, const String& id, bool add) = 0;
    virtual void reset_target(bool junk) = 0;
    virtual std::vector<Snap> source_now() = 0;
    virtual std::vector<Snap> restored() = 0;
    virtual void contract(Rep& rep, unsigned prefix) = 0;
  };
  // direct monitor of the interface contract: the value returned by set_checkpoint_data is the number of bytes appended
  // (CheckpointControl stores it as the record length) and equals get_checkpoint_size (uncompressed configuration);
  // bytes already in the buffer stay untouched; the appended bytes alone restore the object
  template<typename C>
  void check_contract(Rep& rep, const std::string& kind, C& a, const std::vector<Snap>& orig, unsigned prefix)
  {
    FEAT::LAFEM::SerialConfig cfg;
    std::vector<char> buf(prefix); for(unsigned i = 0; i < prefix; ++i) buf[i] = char(0x5A ^ i);
    const u64 announced = a.get_checkpoint_size(cfg);
    const u64 returned = a.set_checkpoint_data(buf, cfg);
    const u64 appended = u64(buf.size()) - prefix;
    vh::J d; d.kv("kind", kind).kv("get_checkpoint_size", (unsigned long)announced).kv("returned", (unsigned long)returned).kv("appended_bytes", (unsigned long)appended).kv("leaves", (unsigned long)orig.size());
    if(returned != appended) rep.viol("checkpoint.set_checkpoint_data", "returned-size-differs-from-appended", d.str());
    if(announced != returned) rep.viol("checkpoint.get_checkpoint_size", "differs-from-written-size", d.str());
    for(unsigned i = 0; i < prefix; ++i) if(buf[i] != char(0x5A ^ i)) { rep.viol("checkpoint.set_checkpoint_data", "buffer-prefix-modified", d.str()); break; }
    NoRep quiet;
    if(!same_leaves(quiet, "", orig, leaves(a))) rep.viol("checkpoint.set_checkpoint_data", "input-modified", d.str());
    std::vector<char> rec(buf.begin() + long(prefix), buf.end());
    C b;
    b.restore_from_checkpoint_data(rec);
    if(!same_leaves(quiet, "", orig, leaves(b))) { rep.viol("checkpoint.restore_from_checkpoint_data", "restored-object-differs", d.str()); same_leaves(rep, "checkpoint.restore_from_checkpoint_data", orig, leaves(b)); }
  }
  template<typename C>
  struct ObjT : Obj
  {
    C a; std::unique_ptr<C> b; std::function<void(C&)> junkfn;
    ObjT(const std::string& k, C&& a_, std::function<void(C&)> j) : a(std::move(a_)), junkfn(j) { kind = k; orig = leaves(a); }
    void add(CheckpointControl& cp, const String& id) override { cp.add_object(id, a); }
    void restore(CheckpointControl& cp, const String& id, bool add_) override { cp.restore_object(id, *b, add_); }
    void reset_target(bool junk) override { b.reset(new C()); if(junk) junkfn(*b); }
    std::vector<Snap> source_now() override { return leaves(a); }
    std::vector<Snap> restored() override { return leaves(*b); }
    void contract(Rep& rep, unsigned prefix) override { check_contract(rep, kind, a, orig, prefix); }
  };
  inline vl::MatSpec cp_junk_spec() { vl::MatSpec j; j.rows = 2; j.cols = 3; j.t = {{0, 1, 5.0}, {1, 0, -5.0}, {1, 2, 2.5}}; j.classify(); return j; }

  // the nine plain kinds
  template<typename DT, typename IT>
  std::unique_ptr<Obj> make_plain_obj(vh::Ctx& c, int kind)
  {
    const std::string ty = std::is_same<DT, double>::value ? "<double,u64>" : "<float,u32>";
    vl::GenOpt o; o.max_dim = c.thorough() ? 80 : 16; o.allow_dim0 = false;
    std::unique_ptr<Obj> r;
    switch(kind)
    {
    case 0: { const Index n = gen_len(c.rng); auto v = vl::gen_vec(c.rng, n, int(c.rng.below(4))); typedef DenseVector<DT, IT> C;
        r.reset(new ObjT<C>("dv" + ty, mk_dv<DT, IT>(v), [](C& x) { x = mk_dv<DT, IT>({9.0, -9.0, 9.5}); })); r->edge = n == 0; r->summary = "size " + std::to_string(n); break; }
    case 1: { const Index n = gen_len(c.rng); auto v = vl::gen_vec(c.rng, n * 2, int(c.rng.below(4))); typedef DenseVectorBlocked<DT, IT, 2> C;
        r.reset(new ObjT<C>("dvb" + ty, mk_dvb<DT, IT, 2>(v), [](C& x) { x = mk_dvb<DT, IT, 2>({9.0, -9.0, 9.5, 1.0}); })); r->edge = n == 0; r->summary = "blocks " + std::to_string(n); break; }
    case 2: { const Index n = gen_len(c.rng); SVSpec s = gen_sv(c.rng, n, 1); typedef SparseVector<DT, IT> C;
        r.reset(new ObjT<C>("sv" + ty, mk_sv<DT, IT>(s, vh::Rng(c.rng.next())), [](C& x) { SVSpec j; j.n = 5; j.idx = {1, 3}; j.val = {7.0, -7.0}; x = mk_sv<DT, IT>(j, vh::Rng(1)); }));
        r->edge = n == 0 || s.idx.empty(); r->summary = "size " + std::to_string(n) + " used " + std::to_string(s.idx.size()); break; }
    case 3: { const Index n = gen_len(c.rng); SVSpec s = gen_sv(c.rng, n, 2); typedef SparseVectorBlocked<DT, IT, 2> C;
        r.reset(new ObjT<C>("svb" + ty, mk_svb<DT, IT, 2>(s), [](C& x) { SVSpec j; j.n = 5; j.idx = {1, 3}; j.val = {7.0, -7.0, 1.0, 2.0}; x = mk_svb<DT, IT, 2>(j); }));
        r->edge = n == 0 || s.idx.empty(); r->summary = "size " + std::to_string(n) + " used " + std::to_string(s.idx.size()); break; }
    case 4: { vl::MatSpec m = vl::gen_matrix(c.rng, o); typedef SparseMatrixCSR<DT, IT> C;
        r.reset(new ObjT<C>("csr" + ty, vl::make_csr<DT, IT>(m), [](C& x) { x = vl::make_csr<DT, IT>(cp_junk_spec()); }));
        r->edge = m.t.empty(); r->summary = std::to_string(m.rows) + "x" + std::to_string(m.cols) + " nnz " + std::to_string(m.t.size()); break; }
    case 5: { o.max_dim = c.thorough() ? 30 : 8; vl::MatSpec bm = vl::gen_matrix(c.rng, o), sm; typedef SparseMatrixBCSR<DT, IT, 2, 3> C;
        r.reset(new ObjT<C>("bcsr" + ty, vl::make_bcsr<DT, IT, 2, 3>(c.rng, bm, sm), [](C& x) { vl::MatSpec js; vh::Rng jr(5); x = vl::make_bcsr<DT, IT, 2, 3>(jr, cp_junk_spec(), js); }));
        r->edge = bm.t.empty(); r->summary = "blocks " + std::to_string(bm.rows) + "x" + std::to_string(bm.cols) + " nnzb " + std::to_string(bm.t.size()); break; }
    case 6: { vl::MatSpec m = vl::gen_matrix(c.rng, o); typedef SparseMatrixBanded<DT, IT> C;
        r.reset(new ObjT<C>("banded" + ty, vl::make_banded<DT, IT>(c.rng, m), [](C& x) { vl::MatSpec j = cp_junk_spec(); vh::Rng jr(7); x = vl::make_banded<DT, IT>(jr, j); }));
        r->summary = std::to_string(m.rows) + "x" + std::to_string(m.cols); break; }
    case 7: { vl::MatSpec m = vl::gen_matrix(c.rng, o); typedef SparseMatrixCSCR<DT, IT> C;
        r.reset(new ObjT<C>("cscr" + ty, vl::make_cscr<DT, IT>(m), [](C& x) { x = vl::make_cscr<DT, IT>(cp_junk_spec()); }));
        r->edge = m.t.empty(); r->summary = std::to_string(m.rows) + "x" + std::to_string(m.cols) + " nnz " + std::to_string(m.t.size()); break; }
    default: { o.max_dim = c.thorough() ? 40 : 12; vl::MatSpec m = vl::gen_matrix(c.rng, o); typedef DenseMatrix<DT, IT> C;
        r.reset(new ObjT<C>("dm" + ty, vl::make_dense<DT, IT>(m), [](C& x) { x = vl::make_dense<DT, IT>(cp_junk_spec()); }));
        r->summary = std::to_string(m.rows) + "x" + std::to_string(m.cols); break; }
    }
    return r;
  }
  // composed object of type C: default-constructed, every leaf filled with random content
  template<typename C>
  std::unique_ptr<Obj> make_meta_obj(vh::Ctx& c, const std::string& kind)
  {
    C a; bool edge = false;
    Filler f{c.rng, Index(c.thorough() ? 40 : 10), &edge, 0.04};
    visit(a, f);
    std::unique_ptr<Obj> r(new ObjT<C>(kind, std::move(a), [](C& x) { vh::Rng jr(99); Filler jf{jr, 4, nullptr, 0.0}; visit(x, jf); }));
    r->edge = edge; r->meta = true; r->summary = std::to_string(r->orig.size()) + " leaves";
    return r;
  }

  inline std::string gen_id(vh::Rng& r, const std::vector<std::string>& have)
  {
    static const char cs[] = "abcdefgXYZ0123456789_-./: ";
    for(;;)
    {
      std::string id;
      if(!have.empty() && r.coin(0.35)) id = r.pick(have);                 // extends an existing identifier (prefix relation)
      if(!have.empty() && r.coin(0.15) && r.pick(have).size() > 1) { const std::string& h = r.pick(have); id = h.substr(0, 1 + r.below(h.size() - 1)); } // proper prefix
      const int n = int(r.range(id.empty() ? 1 : 0, 12));
      for(int i = 0; i < n; ++i) id += cs[r.below(sizeof(cs) - 1)];
      if(!id.empty() && std::find(have.begin(), have.end(), id) == have.end()) return id;
    }
  }

  // the checkpoint case proper (shared by the families 'checkpoint' and 'checkpoint_meta')
  inline void run_checkpoint_case(vh::Ctx& c, const std::string& family, std::vector<std::unique_ptr<Obj>>& objs, const std::vector<std::string>& ids, std::vector<std::string> base)
  {
    const int nobj = int(objs.size());
    bool edge = false; for(auto& o : objs) edge = edge || o->edge;
    if(edge) base.push_back("has_empty_object");
    { vh::J arr('['); for(int i = 0; i < nobj; ++i) arr.add_raw(vh::J().kv("id", ids[std::size_t(i)]).kv("kind", objs[std::size_t(i)]->kind).kv("shape", objs[std::size_t(i)]->summary).str()); c.desc = vh::J().raw("objects", arr.str()).str(); }
    // pre-drawn choices of the sub-operations (0: BinaryStream, 1: .cp file, 2: interface contract)
    struct Plan { std::vector<int> reg, res; std::vector<char> junk, add; bool same_control; };
    Plan plan[2];
    for(int s = 0; s < 2; ++s)
    {
      plan[s].reg.resize(std::size_t(nobj)); plan[s].res.resize(std::size_t(nobj));
      for(int i = 0; i < nobj; ++i) plan[s].reg[std::size_t(i)] = plan[s].res[std::size_t(i)] = i;
      c.rng.shuffle(plan[s].reg); c.rng.shuffle(plan[s].res);
      for(int i = 0; i < nobj; ++i) { plan[s].junk.push_back(c.rng.coin()); plan[s].add.push_back(c.rng.coin()); }
      plan[s].same_control = c.rng.coin(0.3);
    }
    const unsigned prefix = unsigned(c.rng.below(40));
    tmpdir();
    auto pathfn = [&](int s) { return tmpdir() + "/k" + std::to_string((unsigned long long)c.k) + "_" + family + std::to_string(s); };
    auto opfn = [&](int s) { return std::string(s == 0 ? "checkpoint.binarystream" : s == 1 ? "checkpoint.file" : "checkpoint.contract"); };
    vg::group_ops(c, opfn, edge, 3,
      [&](int s) { return s == 2 ? base : vg::with(base, {plan[s].same_control ? "loader:same_control" : "loader:new_control"}); },
      [&](int s) { return std::string(s == 2 ? "contract" : plan[s].same_control ? "same" : "new") + (edge ? "|has_empty_object" : ""); },
      [&](Rep& rep, int s) {
        if(s == 2) { for(auto& o : objs) o->contract(rep, prefix); return; }
        const Plan& p = plan[s]; const std::string op = opfn(s);
        auto comm = FEAT::Dist::Comm::world();
        CheckpointControl cp(comm), cp2(comm);
        for(int i : p.reg) objs[std::size_t(i)]->add(cp, String(ids[std::size_t(i)]));
        { // every identifier is listed
          const String lst = cp.get_identifier_list(); std::vector<std::string> got; std::size_t q = 0;
          while(q <= lst.size()) { std::size_t e = lst.find('\n', q); if(e == std::string::npos) e = lst.size(); got.push_back(lst.substr(q, e - q)); q = e + 1; }
          std::vector<std::string> want = ids; std::sort(want.begin(), want.end()); std::sort(got.begin(), got.end());
          if(got != want) rep.viol(op, "identifier-list", vh::J().kv("got", std::string(lst)).str());
        }
        for(int i = 0; i < nobj; ++i) objs[std::size_t(i)]->reset_target(p.junk[std::size_t(i)] != 0);
        CheckpointControl& loader = p.same_control ? cp : cp2;
        if(s == 0)
        {
          FEAT::BinaryStream bs;
          cp.save(bs);
          bs.seekg(0);
          loader.load(bs);
        }
        else
        {
          const std::string path = pathfn(s) + ".cp";
          cp.save(String(path));
          loader.load(String(path));
          ::unlink(path.c_str());
        }
        for(int i : p.res) objs[std::size_t(i)]->restore(loader, String(ids[std::size_t(i)]), !p.same_control && p.add[std::size_t(i)] != 0);
        NoRep quiet;
        for(int i = 0; i < nobj; ++i)
        {
          Obj& o = *objs[std::size_t(i)];
          if(!same_leaves(quiet, op, o.orig, o.source_now())) rep.viol(op, "input-modified", vh::J().kv("object", i).kv("kind", o.kind).str());
          const std::vector<Snap> got = o.restored();
          if(!same_leaves(quiet, op, o.orig, got))
          {
            int sibling = -1;
            for(int j = 0; j < nobj; ++j) if(j != i && same_leaves(quiet, op, objs[std::size_t(j)]->orig, got)) sibling = j;
            rep.viol(op, sibling >= 0 ? "restored-a-sibling" : "restored-object-differs",
              vh::J().kv("object", i).kv("kind", o.kind).kv("id", ids[std::size_t(i)]).kv("shape", o.summary).kv("equals_object", sibling).str());
            same_leaves(rep, op, o.orig, got); // detail record: which leaf / table / array / position
          }
        }
      });
    if(edge) ::unlink((pathfn(1) + ".cp").c_str());
    c.tags = base; c.sig = vg::sig_of(family, base);
  }
} // namespace c05
