"""C11 libFuzzer runner (thorough tier): drives the clang/libFuzzer build of harness/c11/fuzz.cpp with a run-count
bound (never a time bound), restarts a job after a crash with the remaining budget, re-runs every crash artifact one per
process to classify and de-duplicate it (stack key) and turns artifacts / soft-violation records into viol records."""
import hashlib, os, re, shutil, subprocess, sys, threading
from concurrent.futures import ThreadPoolExecutor
from . import build, sup

VERIF = os.path.dirname(os.path.dirname(os.path.abspath(__file__)))
REPLAYS = os.path.join(VERIF, "replays", "C11")
MAX_SEED_BYTES = 16 << 10
RUNS_PER_JOB = 150000          # at scale 1.0
MAX_RESTARTS = 40

DICT = ['"<FeatMeshFile"', '"</FeatMeshFile>"', '"version=\\"1\\""', '"mesh=\\"conformal:hypercube:2:2\\""',
        '"mesh=\\"conformal:simplex:2:2\\""', '"mesh=\\"conformal:hypercube:3:3\\""', '"mesh=\\"conformal:simplex:3:3\\""',
        '"conformal"', '"hypercube"', '"simplex"', '":2:2"', '":3:3"', '"<Mesh"', '"</Mesh>"', '"type=\\""', '"size=\\""',
        '"<Vertices>"', '"</Vertices>"', '"<Topology"', '"</Topology>"', '"dim=\\"0\\""', '"dim=\\"1\\""', '"dim=\\"2\\""',
        '"dim=\\"3\\""', '"dim=\\"4\\""', '"<MeshPart"', '"</MeshPart>"', '"name=\\""', '"parent=\\"root\\""', '"chart=\\""',
        '"topology=\\"none\\""', '"topology=\\"full\\""', '"topology=\\"parent\\""', '"<Mapping"', '"</Mapping>"',
        '"<Attribute"', '"</Attribute>"', '"<Chart"', '"</Chart>"', '"<Circle"', '"radius=\\""', '"midpoint=\\""',
        '"domain=\\""', '"<Bezier"', '"</Bezier>"', '"<Points>"', '"</Points>"', '"<Params>"', '"</Params>"',
        '"type=\\"closed\\""', '"type=\\"open\\""', '"orientation=\\"-1\\""', '"<Sphere"', '"<Extrude"', '"</Extrude>"',
        '"origin=\\""', '"offset=\\""', '"angles=\\""', '"<SurfaceMesh"', '"</SurfaceMesh>"', '"verts=\\""', '"trias=\\""',
        '"<Triangles>"', '"</Triangles>"', '"<Partition"', '"</Partition>"', '"priority=\\""', '"level=\\""', '"<Patch"',
        '"</Patch>"', '"rank=\\""', '"<Info>"', '"</Info>"', '"<!--"', '"-->"', '" />"', '"/>"', '"\\x0a"', '"\\""', '"="',
        '"-1"', '"0"', '"1"', '"4294967295"', '"4294967296"', '"18446744073709551615"', '"2147483648"', '"1e308"', '"nan"']


def _classify(text, rc):
    if "ERROR: libFuzzer: timeout" in text:
        return "hang"
    if "ERROR: libFuzzer: out-of-memory" in text or "malloc limit" in text:
        return "resource"
    if "ERROR: AddressSanitizer" in text:
        m = re.search(r"ERROR: AddressSanitizer:? ([\w-]+)", text)
        return "asan:" + (m.group(1) if m else "report")
    if "runtime error:" in text:
        return "ubsan"
    if "FATAL ERROR" in text or "ABORT" in text:
        return "abort"
    if "terminate called" in text or "uncaught exception" in text:
        return "uncaught"
    if "ERROR: libFuzzer: deadly signal" in text:
        return "signal"
    return "exit:%s" % rc


def _headline(text):
    for k in ("Message....: ", "Message: ", "Expression.: ", "Expression: ", "FATAL ERROR: ", "runtime error: ", "SUMMARY: "):
        i = text.find(k)
        if i >= 0:
            return (k + text[i + len(k):].split("\n")[0])[:220]
    return ""


def _env(unit, extra=None):
    env = build.sanitizer_env("fuzz", unit.get("env"))
    if extra:
        env.update(extra)
    return env


def rerun_artifact(binp, unit, path, timeout=120):
    """one artifact, one process: returns (kind, tags, stage, stack_key, headline, stderr tail)"""
    try:
        r = subprocess.run([binp, "-timeout=25", "-rss_limit_mb=6000", path], capture_output=True, text=True, errors="replace",
                           env=_env(unit, {"C11_FUZZ_REPLAY": "1"}), timeout=timeout)
        out, rc = r.stderr, r.returncode
    except subprocess.TimeoutExpired as e:
        out, rc = (e.stderr or b"").decode("utf-8", "replace") if isinstance(e.stderr, bytes) else (e.stderr or ""), None
        return "hang", [], "parse", "", "wall-clock timeout of the re-run", sup.tail(out)
    tags = []
    m = re.search(r"C11-TAGS: (.*)", out)
    if m:
        tags = [t for t in m.group(1).strip().split(",") if t]
    stage = "destroy-after-accept" if "C11-STAGE: destroy" in out else ("write-after-accept" if "C11-STAGE: write" in out else "parse")
    if rc == 0:
        soft = re.search(r"C11-SOFT: (\S+)", out)
        if soft:
            cls = re.search(r"C11-CLASS: (.*)", out)
            det = re.search(r"C11-DETAIL: (.*)", out)
            return soft.group(1), tags, stage, (cls.group(1) if cls else ""), (det.group(1)[:300] if det else ""), ""
        return "not-reproduced", tags, stage, "", "", sup.tail(out, 10)
    return _classify(out, rc), tags, stage, sup.stack_key(out), _headline(out), sup.tail(out, 40, 4000)


def _one_job(binp, unit, j, runs, seed, corpus, seeds, dictp, artdir, softdir, max_len, log):
    """runs one libFuzzer job to its run budget, restarting after crashes; returns (executed, artifacts)"""
    executed, arts, restarts = 0, [], 0
    while executed < runs and restarts <= MAX_RESTARTS:
        left = runs - executed
        logp = os.path.join(artdir, "job%d.%d.log" % (j, restarts))
        cmd = [binp, corpus, seeds, "-runs=%d" % left, "-seed=%d" % (seed * 1000 + j * 41 + restarts + 1), "-max_len=%d" % max_len,
               "-dict=" + dictp, "-artifact_prefix=" + os.path.join(artdir, "j%d-" % j), "-timeout=25", "-rss_limit_mb=6000",
               "-detect_leaks=0", "-print_final_stats=1", "-reload=0", "-verbosity=1"]
        with open(logp, "wb") as lf:
            p = subprocess.run(cmd, stdout=lf, stderr=subprocess.STDOUT, env=_env(unit, {"C11_FUZZ_SOFT_DIR": softdir}))
        text = open(logp, "rb").read().decode("utf-8", "replace")
        m = re.search(r"stat::number_of_executed_units: (\d+)", text)
        done = int(m.group(1)) if m else 0
        if not m:
            nums = re.findall(r"^#(\d+)\s", text, re.M)
            done = int(nums[-1]) if nums else 0
        # the corpus replay at start-up counts as executions, too
        executed += max(done, 1)
        if p.returncode == 0:
            break
        a = re.findall(r"Test unit written to (\S+)", text)
        arts.extend(a)
        if not a:
            log.append("libFuzzer job %d ended with rc=%s without an artifact: %s" % (j, p.returncode, sup.tail(text, 8)))
            if restarts > 3:
                break
        restarts += 1
    return executed, arts


def run(pid, spec, unit, binp, tier, seed, workdir, overlay, scale):
    res = sup.empty_result()
    wd = os.path.join(workdir, "fuzz")
    corpus, seeds, artdir, softdir = [os.path.join(wd, d) for d in ("corpus", "seeds", "artifacts", "soft")]
    for d in (corpus, seeds, artdir, softdir):
        os.makedirs(d, exist_ok=True)
    os.makedirs(REPLAYS, exist_ok=True)
    for f in os.listdir(REPLAYS):
        if f.startswith("fuzz-"):
            os.remove(os.path.join(REPLAYS, f))
    # seed corpus = the small shipped mesh files
    mdir = os.path.join(build.REPO, "data", "meshes")
    largest = 0
    for f in sorted(os.listdir(mdir)):
        p = os.path.join(mdir, f)
        if f.endswith(".xml") and os.path.getsize(p) <= MAX_SEED_BYTES:
            shutil.copy(p, os.path.join(seeds, f))
            largest = max(largest, os.path.getsize(p))
    max_len = largest + 4096          # above the largest seed (libFuzzer silently truncates longer units)
    dictp = os.path.join(wd, "c11.dict")
    open(dictp, "w").write("\n".join(DICT) + "\n")
    njobs = max(1, min(14, sup.NWORK))
    runs = max(2000, int(RUNS_PER_JOB * scale))
    log = []
    with ThreadPoolExecutor(max_workers=njobs) as ex:
        outs = list(ex.map(lambda j: _one_job(binp, unit, j, runs, seed, corpus, seeds, dictp, artdir, softdir, max_len, log), range(njobs)))
    total = sum(o[0] for o in outs)
    arts = [a for o in outs for a in o[1]]
    res["cases"] = total
    res["events"] = total
    res["ops"]["mesh.parse(libfuzzer)"] = total
    res["sigs"]["fuzz|libfuzzer-run"] = total
    res["counters"]["fuzz_jobs"] = njobs
    res["counters"]["fuzz_runs_per_job"] = runs
    res["counters"]["fuzz_crash_artifacts"] = len(arts)
    res["counters"]["fuzz_corpus_units_final"] = len(os.listdir(corpus))
    res["counters"]["fuzz_max_len"] = max_len
    for l in log[:3]:
        res["harness_errors"].append(l)
    # crash artifacts: one re-run per process, de-duplicated by (kind, stack key, tags)
    seen = {}
    for a in arts:
        if not os.path.exists(a):
            continue
        kind, tags, stage, skey, head, err = rerun_artifact(binp, unit, a)
        if kind == "resource":
            res["counters"]["fuzz_rejected_by_resource_limit"] = res["counters"].get("fuzz_rejected_by_resource_limit", 0) + 1
            continue
        if kind == "not-reproduced":
            res["incs"].append(dict(t="inc", family="libfuzzer", k=os.path.basename(a), op="mesh.parse", why="artifact did not reproduce in isolation"))
            continue
        key = (kind, skey, tuple(sorted(tags)))
        seen[key] = seen.get(key, 0) + 1
        if seen[key] > 1:
            continue
        dst = os.path.join(REPLAYS, "fuzz-%s-%s.xml" % (re.sub(r"[^\w]+", "_", kind), hashlib.sha1(open(a, "rb").read()).hexdigest()[:12]))
        shutil.copy(a, dst)
        res["crashes"] += 1
        res["viols"].append(dict(t="viol", family="libfuzzer", unit=unit["name"], k=os.path.basename(dst),
                                 op="mesh.parse" if stage == "parse" else "mesh.write_accepted", kind=kind, tags=["libfuzzer"] + tags,
                                 detail=dict(artifact=dst, stage=stage, headline=head, stack=skey, stderr=err, bytes=os.path.getsize(dst))))
    # soft violations recorded by the target itself
    sseen = set()
    for f in sorted(os.listdir(softdir)):
        if not f.endswith(".txt"):
            continue
        lines = open(os.path.join(softdir, f), errors="replace").read().split("\n")
        kind, cls, tg, det = (lines + ["", "", "", ""])[:4]
        tags = [t for t in tg.split(",") if t]
        key = (kind, cls, tuple(tags))
        if key in sseen:
            continue
        sseen.add(key)
        src = os.path.join(softdir, f[:-4] + ".xml")
        dst = os.path.join(REPLAYS, "fuzz-%s-%s.xml" % (re.sub(r"[^\w]+", "_", kind), f[:-4][:12]))
        if os.path.exists(src):
            shutil.copy(src, dst)
        res["viols"].append(dict(t="viol", family="libfuzzer", unit=unit["name"], k=os.path.basename(dst), op="mesh.parse", kind=kind,
                                 tags=["libfuzzer"] + tags, detail=dict(artifact=dst, **{"class": cls}, what=det[:400])))
    res["samples"].append(dict(t="sample", family="libfuzzer", k=0, op="mesh.parse(libfuzzer)", tags=["libfuzzer"],
                               desc=dict(jobs=njobs, runs_per_job=runs, seed_files=len(os.listdir(seeds)), max_len=max_len, dictionary_tokens=len(DICT))))
    return res


def replay(w, spec, unit):
    rec = w["record"]
    art = rec.get("detail", {}).get("artifact")
    if not art or not os.path.exists(art):
        print("artifact missing: %s" % art)
        return 2
    binp = build.build_unit(unit)
    r = subprocess.run([binp, "-timeout=25", art], env=_env(unit, {"C11_FUZZ_REPLAY": "1"}))
    soft = rec.get("kind") in ("foreign-exception", "accepted-invalid", "write-exception")
    print("replay exit code %d (%s)" % (r.returncode, "see C11-SOFT lines above" if soft else ("violation reproduced" if r.returncode != 0 else "no violation")))
    return 1 if (r.returncode != 0 or soft) else 0
