"""Supervisor: fans the cases of one harness family out over worker processes, attributes
crashes / sanitizer reports / hangs to the case in flight (marker file), restarts after it."""
import json, os, re, signal, subprocess, sys, tempfile, time, threading
from concurrent.futures import ThreadPoolExecutor
from . import build

NWORK = int(os.environ.get("VERIF_WORKERS", "16"))
MAX_UNKNOWN_DEATHS = int(os.environ.get("VERIF_MAX_UNKNOWN_DEATHS", "24"))


def empty_result():
    return dict(cases=0, events=0, trivial=0, sigs={}, ops={}, counters={}, viols=[], incs=[], samples=[], crashes=0,
                harness_errors=[])


def merge(a, b):
    for k in ("cases", "events", "trivial", "crashes"):
        a[k] += b.get(k, 0)
    for k in ("sigs", "ops", "counters"):
        for s, n in b.get(k, {}).items():
            a[k][s] = a[k].get(s, 0) + n
    for k in ("viols", "incs", "samples", "harness_errors"):
        a[k].extend(b.get(k, []))
    return a


def classify_stderr(text, rc):
    """kind of an abnormal termination, from the worker's stderr."""
    m = re.search(r"VH-VIOLATION-KIND: ([\w:-]+)", text)
    if m:
        return m.group(1)
    if "ERROR: AddressSanitizer" in text or "ERROR: LeakSanitizer" in text:
        m = re.search(r"ERROR: (?:Address|Leak)Sanitizer:? ([\w-]+)", text)
        return "asan:" + (m.group(1) if m else "report")
    if "WARNING: ThreadSanitizer" in text:
        m = re.search(r"WARNING: ThreadSanitizer: ([\w -]+?)(?: \(|$)", text, re.M)
        return "tsan:" + (m.group(1).strip().replace(" ", "-") if m else "report")
    if "runtime error:" in text:
        return "ubsan"
    if "FATAL ERROR" in text or "Assertion" in text and "failed" in text or "ABORT" in text:
        return "abort"
    if "terminate called" in text:
        return "uncaught"
    if rc is not None and rc < 0:
        return "signal:%d" % (-rc)
    return "exit:%s" % rc


def pg_cpu_seconds(pgid):
    """CPU seconds (user+system) consumed so far by the live processes of a process group."""
    tck = os.sysconf("SC_CLK_TCK")
    tot = 0
    for d in os.listdir("/proc"):
        if not d.isdigit():
            continue
        try:
            st = open("/proc/%s/stat" % d).read()
        except OSError:
            continue
        f = st[st.rfind(")") + 2:].split()
        try:
            if int(f[2]) == pgid:
                tot += int(f[11]) + int(f[12])
        except (ValueError, IndexError):
            pass
    return tot / float(tck)


def read_marker(path):
    try:
        raw = open(path, "rb").read().decode("utf-8", "replace")
    except OSError:
        return None, "", []
    parts = raw.strip().split("\t")
    try:
        k = int(parts[0])
    except (ValueError, IndexError):
        return None, "", []
    op = parts[1].strip() if len(parts) > 1 else ""
    tags = [t for t in parts[2].strip().split(",") if t] if len(parts) > 2 else []
    return k, op, tags


def tail(text, n=50, maxc=6000):
    t = "\n".join(text.splitlines()[-n:])
    return t[-maxc:]


def stack_key(text):
    """de-duplication key of a sanitizer / abort report: function names of the first frames."""
    fr = re.findall(r"#\d+ 0x[0-9a-f]+ in ([^\s(]+)", text)
    fr = [f for f in fr if not f.startswith("__") and "sanitizer" not in f and f not in ("abort", "raise")]
    m = re.search(r"(?:Message|Reason|Expression)[^\n]*", text)
    return "|".join(fr[:4]) + (("|" + m.group(0)[:80]) if m else "")


class FamilyRun:
    def __init__(self, binp, family, seed, tier, mode, ncases, workdir, hang_kinds=False, per_case_timeout=20.0,
                 base_timeout=120.0, env_extra=None, samples=2, wrapper=None, is_known=None):
        self.binp, self.family, self.seed, self.tier, self.mode = binp, family, seed, tier, mode
        self.n = ncases
        self.workdir = workdir
        self.hang_kinds = hang_kinds
        self.pct = per_case_timeout
        self.base = base_timeout
        self.env = build.sanitizer_env(mode, env_extra)
        self.samples = samples
        self.wrapper = wrapper or []
        self.lock = threading.Lock()
        self.tls = threading.local()
        self.hangs = 0          # reproduced hangs seen in this family run (all chunks)
        # worker deaths / hangs that are NOT listed known findings; every one costs a restart (and up to two watchdog
        # budgets), so the family is cut short once their number has settled the verdict many times over
        self.is_known = is_known or (lambda v: False)
        self.unknown_deaths = 0
        self.cut_short = False
        self.res = empty_result()

    def _invoke(self, args, errpath, timeout, marker=None, stall=None):
        """returns (rc, timed_out). With marker/stall: the run is also ended when the marker file (rewritten by the
        harness at every case / operation start) has not changed for `stall` seconds. self.last_cpu (per thread) holds
        the CPU seconds the process group had consumed when it was killed."""
        with open(errpath, "wb") as ef:
            p = subprocess.Popen(self.wrapper + [self.binp] + args, stdout=subprocess.DEVNULL, stderr=ef, env=self.env,
                                 start_new_session=True)
            t0 = time.time()
            while True:
                try:
                    rc = p.wait(timeout=2.0 if (marker and stall) else timeout)
                    return rc, False
                except subprocess.TimeoutExpired:
                    now = time.time()
                    expired = now - t0 >= timeout
                    if not expired and marker and stall:
                        try:
                            expired = now - max(os.path.getmtime(marker), t0) >= stall
                        except OSError:
                            expired = now - t0 >= stall
                    if not expired:
                        continue
                    self.tls.cpu = pg_cpu_seconds(p.pid)
                    try:
                        os.killpg(p.pid, signal.SIGKILL)
                    except OSError:
                        pass
                    p.wait()
                    return None, True

    def _note_death(self, v):
        if not self.is_known(v):
            with self.lock:
                self.unknown_deaths += 1

    def _run_chunk(self, idx, a, b):
        out = os.path.join(self.workdir, "%s.%d.jsonl" % (self.family, idx))
        marker = os.path.join(self.workdir, "%s.%d.marker" % (self.family, idx))
        err = os.path.join(self.workdir, "%s.%d.err" % (self.family, idx))
        local = empty_result()
        cur = a
        nsamp = self.samples if idx == 0 else 0
        while cur < b:
            if self.unknown_deaths >= MAX_UNKNOWN_DEATHS:
                with self.lock:
                    if not self.cut_short:
                        self.cut_short = True
                        self.res["counters"]["family_cut_short_after_unlisted_worker_deaths"] = 1
                break
            for f in (marker, marker + ".sum"):
                if os.path.exists(f):
                    os.remove(f)
            args = ["--family", self.family, "--seed", str(self.seed), "--tier", self.tier, "--from", str(cur),
                    "--to", str(b), "--out", out, "--marker", marker, "--samples", str(nsamp)]
            timeout = self.base + self.pct * (b - cur)
            # one case / operation may stall for `base` seconds; once three hangs were reproduced in this family the
            # verdict no longer depends on further ones, so they are cut short and not re-run
            many = self.hangs >= 3
            rc, timed_out = self._invoke(args, err, timeout, marker=marker, stall=(30.0 if many else self.base))
            if rc == 0:
                break
            k, op, tags = read_marker(marker)
            errtext = open(err, "rb").read().decode("utf-8", "replace")
            # cases the killed invocation had completed before its last partial-summary flush
            flushed = 0
            try:
                ps = json.load(open(marker + ".sum"))
                merge(local, dict(cases=ps["cases"], events=ps["events"], trivial=ps["trivial"], sigs=ps["sigs"],
                                  ops=ps["ops"], counters=ps["counters"]))
                flushed = ps["cases"]
            except (OSError, ValueError, KeyError):
                pass
            if k is not None and cur <= k < b:
                # cases run in index order: cur..k-1 were completed and k was in flight; those completed after the last
                # summary flush (and k itself) are counted as executed, their events / classes are lost
                extra = max(0, (k - cur) - flushed) + 1
                local["cases"] += extra
                local["counters"]["cases_counted_without_event_summary"] = local["counters"].get("cases_counted_without_event_summary", 0) + extra
            if rc == 2 and (k is None):
                local["harness_errors"].append("harness exit 2: " + tail(errtext, 10))
                break
            if k is None or k < cur or k >= b:
                # died outside any case (startup / shutdown): harness-level problem
                if k is not None and k >= (1 << 63):
                    # all cases finished, died at exit (e.g. finalize / leak check)
                    kind = classify_stderr(errtext, rc)
                    local["viols"].append(dict(t="viol", family=self.family, k=b - 1, op="process.exit", kind=kind,
                                               tags=[], detail=dict(stderr=tail(errtext), rc=rc, range=[cur, b])))
                    break
                local["harness_errors"].append("worker died outside a case rc=%s: %s" % (rc, tail(errtext, 15)))
                break
            local["crashes"] += 1
            if timed_out and many:
                local["incs"].append(dict(t="inc", family=self.family, k=k, op=op,
                                          why="watchdog expired (not re-run: 3 hangs already reproduced in this family)"))
                with self.lock:
                    self.unknown_deaths += 1
            elif timed_out:
                # re-run the single case under its own budget
                self.tls.cpu = 0.0
                rc2, to2 = self._invoke(["--family", self.family, "--seed", str(self.seed), "--tier", self.tier,
                                         "--case", str(k)], err + ".re", self.base)
                cpu2 = getattr(self.tls, "cpu", 0.0)
                # a hang is a violation when the case, run alone, is still busy (>= a quarter of its budget in CPU time, so
                # machine load cannot be the reason) when the budget ends; a blocked case (no CPU) only where the
                # property says that termination is part of it (hang_is_violation)
                if to2 and (self.hang_kinds or cpu2 >= 0.25 * self.base):
                    with self.lock:
                        self.hangs += 1
                    local["viols"].append(dict(t="viol", family=self.family, k=k, op=op or self.family, kind="hang",
                                               tags=tags, detail=dict(budget_s=self.base, reproduced=True,
                                                                      cpu_seconds_when_killed=round(cpu2, 1))))
                    self._note_death(local["viols"][-1])
                else:
                    local["incs"].append(dict(t="inc", family=self.family, k=k, op=op,
                                              why="watchdog expired (reproduced=%s, cpu=%.0fs)" % (to2, cpu2)))
            else:
                kind = classify_stderr(errtext, rc)
                reproduced = None
                if kind.startswith("signal") or kind.startswith("exit"):
                    rc2, to2 = self._invoke(["--family", self.family, "--seed", str(self.seed), "--tier", self.tier,
                                             "--case", str(k)], err + ".re", self.base)
                    reproduced = (rc2 not in (0, 1)) and not to2
                    if not reproduced:
                        local["incs"].append(dict(t="inc", family=self.family, k=k, op=op,
                                                  why="worker died (%s) but the case passes in isolation" % kind))
                        cur = k + 1
                        continue
                local["viols"].append(dict(t="viol", family=self.family, k=k, op=op or self.family, kind=kind, tags=tags,
                                           detail=dict(stderr=tail(errtext), rc=rc, stack=stack_key(errtext),
                                                       reproduced=reproduced)))
                self._note_death(local["viols"][-1])
            cur = k + 1
        # collect records
        if os.path.exists(out):
            for line in open(out, errors="replace"):
                line = line.strip()
                if not line:
                    continue
                try:
                    r = json.loads(line)
                except ValueError:
                    continue
                t = r.get("t")
                if t == "viol":
                    local["viols"].append(r)
                elif t == "inc":
                    local["incs"].append(r)
                elif t == "sample":
                    local["samples"].append(r)
                elif t == "summary":
                    merge(local, dict(cases=r["cases"], events=r["events"], trivial=r["trivial"], sigs=r["sigs"],
                                      ops=r["ops"], counters=r["counters"]))
            os.remove(out)
        for f in (marker, marker + ".sum", marker + ".sum.tmp", err, err + ".re"):
            if os.path.exists(f):
                try:
                    os.remove(f)
                except OSError:
                    pass
        with self.lock:
            merge(self.res, local)

    def run(self, nworkers=None, chunks_per_worker=4):
        nworkers = nworkers or NWORK
        n = self.n
        if n <= 0:
            return self.res
        nchunks = max(1, min(n, nworkers * chunks_per_worker))
        size = (n + nchunks - 1) // nchunks
        ranges = [(i, a, min(n, a + size)) for i, a in enumerate(range(0, n, size))]
        with ThreadPoolExecutor(max_workers=nworkers) as ex:
            list(ex.map(lambda r: self._run_chunk(*r), ranges))
        return self.res


def family_count(binp, family, tier, mode):
    r = subprocess.run([binp, "--family", family, "--tier", tier, "--count"], capture_output=True, text=True,
                       env=build.sanitizer_env(mode))
    if r.returncode != 0:
        raise RuntimeError("--count failed for %s: %s" % (family, r.stderr[-2000:]))
    return int(r.stdout.strip().splitlines()[-1])
