"""Build layer: compiles harness TUs and the FEAT library sources from /repo's *current
working tree* with the sanitizer flags of a build mode.  Objects are cached by the sha256
of (compiler id, flags, fully preprocessed TU): running the preprocessor on every check is
the rebuild decision, so any edit under /repo that can influence a TU forces recompilation.
"""
import hashlib, os, re, shutil, subprocess, sys, time, json
from concurrent.futures import ThreadPoolExecutor

VERIF = os.path.dirname(os.path.dirname(os.path.abspath(__file__)))
REPO = os.environ.get("VERIF_REPO", "/repo")
CACHE = os.environ.get("VERIF_CACHE", os.path.join(VERIF, ".cache"))
GUARD = "FEAT_VERIF_HOOKS"
NJOBS = int(os.environ.get("VERIF_JOBS", "16"))

UBSAN_OFF = "alignment,nonnull-attribute,returns-nonnull-attribute,pointer-overflow,float-cast-overflow,vptr,object-size,float-divide-by-zero"

COMMON = ["-std=c++17", "-fno-omit-frame-pointer", "-D" + GUARD, "-Wno-deprecated-declarations"]

MODES = {
    # all single-process harnesses
    "asan": dict(cxx="g++", cflags=COMMON + ["-O0", "-g1", "-fsanitize=address,undefined",
                 "-fno-sanitize=" + UBSAN_OFF, "-fno-sanitize-recover=all", "-fopenmp"],
                 ldflags=["-fsanitize=address,undefined", "-fopenmp", "-rdynamic"],
                 cfg={"FEAT_HAVE_OMP": 1}),
    # optimized asan (for run-time heavy mesh/assembly harnesses)
    "asan1": dict(cxx="g++", cflags=COMMON + ["-O1", "-g1", "-fsanitize=address", "-fopenmp"],
                  ldflags=["-fsanitize=address", "-fopenmp", "-rdynamic"],
                  cfg={"FEAT_HAVE_OMP": 1}),
    "tsan": dict(cxx="g++", cflags=COMMON + ["-O1", "-g", "-fsanitize=thread"],
                 ldflags=["-fsanitize=thread", "-pthread", "-rdynamic"], cfg={}),
    "plain": dict(cxx="g++", cflags=COMMON + ["-O1", "-g1", "-fopenmp"], ldflags=["-fopenmp", "-rdynamic"],
                  cfg={"FEAT_HAVE_OMP": 1}),
    "mpi": dict(cxx="mpicxx", cflags=COMMON + ["-O1", "-g1", "-DOMPI_SKIP_MPICXX"], ldflags=["-rdynamic"],
                cfg={"FEAT_HAVE_MPI": 1}),
    "fuzz": dict(cxx="clang++", cflags=["-std=gnu++17", "-O1", "-g", "-fno-omit-frame-pointer", "-D" + GUARD,
                 "-fsanitize=fuzzer-no-link,address,undefined", "-fno-sanitize=" + UBSAN_OFF.replace(",float-divide-by-zero", ""),
                 "-fno-sanitize-recover=all", "-Wno-everything"],
                 ldflags=["-fsanitize=fuzzer,address,undefined"], cfg={}),
}

LIB_CORE = ["kernel/runtime.cpp", "kernel/backend.cpp", "kernel/util/dist.cpp", "kernel/util/dist_file_io.cpp",
            "kernel/util/kahan_summation.cpp", "kernel/util/memory_pool.cpp", "kernel/util/property_map.cpp",
            "kernel/util/statistics.cpp", "kernel/util/xml_scanner.cpp", "kernel/adjacency/coloring.cpp",
            "kernel/adjacency/cuthill_mckee.cpp", "kernel/adjacency/graph.cpp", "kernel/adjacency/permutation.cpp"]
LIBSETS = {"none": [], "core": LIB_CORE}


def log(msg):
    sys.stderr.write("[build] %s\n" % msg)
    sys.stderr.flush()


_cxx_id = {}


def cxx_id(cxx):
    if cxx not in _cxx_id:
        _cxx_id[cxx] = subprocess.run([cxx, "--version"], capture_output=True, text=True).stdout.splitlines()[0]
    return _cxx_id[cxx]


def gen_config(mode, cfgdefs):
    """Generate feat_config.hpp for a build configuration from /repo/feat_config.hpp.in."""
    m = MODES[mode]
    defs = dict(m["cfg"])
    defs.update(cfgdefs or {})
    tag = mode + "".join("+%s" % k for k in sorted(cfgdefs or {}))
    d = os.path.join(CACHE, "cfg", tag)
    os.makedirs(d, exist_ok=True)
    src = open(os.path.join(REPO, "feat_config.hpp.in")).read()
    subst = {"CMAKE_VERSION": "0", "FEAT_SOURCE_DIR": REPO, "FEAT_BINARY_DIR": d, "FEAT_BUILD_ID": "verif-" + tag,
             "BUILD_ID": "verif-" + tag, "CMAKE_CXX_COMPILER_ID": "GNU" if m["cxx"] != "clang++" else "Clang",
             "CMAKE_CXX_COMPILER": m["cxx"], "FEAT_GIT_SHA1": "verif"}
    out = []
    for line in src.splitlines():
        mm = re.match(r"\s*#cmakedefine\s+(\w+)(.*)", line)
        if mm:
            name = mm.group(1)
            if defs.get(name):
                out.append("#define %s" % name)
            else:
                out.append("/* #undef %s */" % name)
            continue
        line = re.sub(r"@(\w+)@", lambda x: subst.get(x.group(1), ""), line)
        line = re.sub(r"\$\{(\w+)\}", lambda x: subst.get(x.group(1), ""), line)
        out.append(line)
    text = "\n".join(out) + "\n"
    p = os.path.join(d, "feat_config.hpp")
    if not os.path.exists(p) or open(p).read() != text:
        open(p, "w").write(text)
    return d, tag


def _run(cmd, **kw):
    return subprocess.run(cmd, capture_output=True, text=True, **kw)


def compile_tu(cxx, flags, src, overlay=None):
    """Returns (objpath, was_cached). Raises RuntimeError on compile error."""
    t0 = time.time()
    pre = _run([cxx] + flags + ["-E", src])
    if pre.returncode != 0:
        raise RuntimeError("preprocess failed for %s:\n%s" % (src, pre.stderr[-4000:]))
    h = hashlib.sha256()
    h.update(cxx_id(cxx).encode())
    h.update(" ".join(flags).encode())
    h.update(pre.stdout.encode())
    key = h.hexdigest()[:32]
    objdir = os.path.join(CACHE, "obj")
    os.makedirs(objdir, exist_ok=True)
    obj = os.path.join(objdir, key + ".o")
    if os.path.exists(obj) and os.environ.get("VERIF_NO_CACHE") != "1":
        os.utime(obj, None)
        return obj, True
    tmp = obj + ".tmp%d" % os.getpid()
    r = _run([cxx] + flags + ["-c", src, "-o", tmp])
    if r.returncode != 0:
        raise RuntimeError("compile failed for %s:\n%s" % (src, r.stderr[-6000:]))
    os.replace(tmp, obj)
    log("compiled %s (%.0fs)" % (os.path.relpath(src, VERIF) if src.startswith(VERIF) else src, time.time() - t0))
    return obj, False


def prune_cache(max_gb=12):
    objdir = os.path.join(CACHE, "obj")
    if not os.path.isdir(objdir):
        return
    ents = []
    tot = 0
    for f in os.listdir(objdir):
        p = os.path.join(objdir, f)
        try:
            st = os.stat(p)
        except OSError:
            continue
        ents.append((st.st_mtime, st.st_size, p))
        tot += st.st_size
    ents.sort()
    for mt, sz, p in ents:
        if tot <= max_gb * (1 << 30):
            break
        try:
            os.remove(p)
        except OSError:
            pass
        tot -= sz


def build_unit(unit, overlay=None):
    """unit: dict(name, sources[], mode, libs, cfgdefs{}, cflags[], ldflags[]).
    Returns path of the linked binary. overlay: directory placed before /repo on the include path
    (used by the self-test mutants); overlay .cpp files replace library sources."""
    mode = unit.get("mode", "asan")
    m = MODES[mode]
    cfgdir, tag = gen_config(mode, unit.get("cfgdefs"))
    inc = []
    if overlay:
        inc += ["-I" + overlay]
    inc += ["-I" + cfgdir, "-I" + REPO, "-I" + os.path.join(VERIF, "harness")]
    flags = m["cflags"] + list(unit.get("cflags", [])) + inc
    srcs = [os.path.join(VERIF, s) for s in unit["sources"]]
    for s in LIBSETS[unit.get("libs", "core")] + list(unit.get("repo_sources", [])):
        p = os.path.join(REPO, s)
        if overlay and os.path.exists(os.path.join(overlay, s)):
            p = os.path.join(overlay, s)
        srcs.append(p)
    with ThreadPoolExecutor(max_workers=NJOBS) as ex:
        res = list(ex.map(lambda s: compile_tu(m["cxx"], flags, s), srcs))
    objs = [r[0] for r in res]
    h = hashlib.sha256((" ".join(objs) + " ".join(m["ldflags"] + list(unit.get("ldflags", [])))).encode()).hexdigest()[:16]
    bindir = os.path.join(CACHE, "bin")
    os.makedirs(bindir, exist_ok=True)
    binp = os.path.join(bindir, "%s-%s-%s" % (unit["name"], tag, h))
    if not os.path.exists(binp):
        tmp = binp + ".tmp%d" % os.getpid()
        r = _run([m["cxx"]] + objs + m["ldflags"] + list(unit.get("ldflags", [])) + ["-o", tmp])
        if r.returncode != 0:
            raise RuntimeError("link failed for %s:\n%s" % (unit["name"], r.stderr[-6000:]))
        os.replace(tmp, binp)
        # keep the 12 most recent binaries of the same unit+tag (concurrent builds with other overlays may be using theirs)
        pref = "%s-%s-" % (unit["name"], tag)
        olds = sorted((os.path.getmtime(os.path.join(bindir, f)), f) for f in os.listdir(bindir)
                      if f.startswith(pref) and ".tmp" not in f and os.path.join(bindir, f) != binp)
        for _, f in olds[:-11]:
            try:
                os.remove(os.path.join(bindir, f))
            except OSError:
                pass
    else:
        os.utime(binp, None)
    prune_cache()
    return binp


def sanitizer_env(mode, extra=None):
    env = dict(os.environ)
    env["ASAN_OPTIONS"] = "abort_on_error=1:detect_leaks=0:allocator_may_return_null=1:handle_abort=0:detect_stack_use_after_return=0:malloc_context_size=12"
    env["UBSAN_OPTIONS"] = "print_stacktrace=1:halt_on_error=1"
    env["TSAN_OPTIONS"] = "halt_on_error=1:second_deadlock_stack=1:history_size=4"
    env["OMP_NUM_THREADS"] = env.get("VERIF_OMP_THREADS", "1")
    env["OMPI_ALLOW_RUN_AS_ROOT"] = "1"
    env["OMPI_ALLOW_RUN_AS_ROOT_CONFIRM"] = "1"
    env["OMPI_MCA_rmaps_base_oversubscribe"] = "1"
    env["OMPI_MCA_btl"] = "self,vader"
    if extra:
        env.update(extra)
    return env
