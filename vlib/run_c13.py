"""C13 runner + offline checker: distributed vectors / operators / solves equal the 1-process results.

For each configuration (mesh, level string, space, partitioner, data seed) the MPI harness is run with
p = 1 (reference) and with several p > 1 and several schedule seeds (PMPI MPI_Waitany perturbation).
The per-rank event logs are merged by DOF coordinate key and judged:
  sync0 : after sync_0 every sharing rank holds the sum of all pre-sync contributions (each exactly once)
  sync1 : after sync_1 all sharers hold the average ( = common value) of the pre-sync values
  merged consistent vectors equal the p=1 vector key by key; dot/norms equal the p=1 scalars;
  A*u and w-0.5*A*u equal the p=1 product; rhs, PCG-Jacobi solution / defects / iteration count / errors
  equal the p=1 run; PCG-MG: final solution and errors only (hierarchy depends on p).
  The same configuration under different arrival orders must agree (up to rounding).
"""
import json, os, re, subprocess, glob, math, time, random, hashlib, shutil
from . import build, sup

REPO = build.REPO


def _key(x, y):
    return (round(x * 1e7), round(y * 1e7))


def load_run(prefix, nprocs):
    ranks = []
    for r in range(nprocs):
        p = "%s.%d.jsonl" % (prefix, r)
        if not os.path.exists(p):
            return None, "missing log of rank %d" % r
        recs = []
        done = False
        for line in open(p):
            line = line.strip()
            if not line:
                continue
            try:
                d = json.loads(line)
            except ValueError:
                return None, "unparsable log line in rank %d" % r
            if d.get("t") == "done":
                done = True
            recs.append(d)
        if not done:
            return None, "log of rank %d incomplete" % r
        ranks.append(recs)
    return ranks, None


def vecs_of(ranks, name):
    """list per rank of dict key -> value"""
    out = []
    for recs in ranks:
        d = {}
        for r in recs:
            if r.get("t") == "vec" and r.get("name") == name:
                for x, y, v in r["data"]:
                    d[_key(x, y)] = v
        out.append(d)
    return out


def scalars_of(ranks):
    out = []
    for recs in ranks:
        d = {}
        for r in recs:
            if r.get("t") == "scalar":
                d[r["name"]] = r["value"]
        out.append(d)
    return out


def waitany_of(ranks):
    """per rank: list of (phase, ready tuple, chosen)"""
    return [[(r["phase"], tuple(r["ready"]), r["chosen"]) for r in recs if r.get("t") == "waitany"] for recs in ranks]


def close(a, b, rel, absol):
    return abs(a - b) <= rel * max(abs(a), abs(b)) + absol


class Judge:
    def __init__(self, cfg_tags, desc):
        self.viols = []
        self.events = 0
        self.tags = cfg_tags
        self.desc = desc

    def viol(self, op, kind, detail):
        self.viols.append(dict(t="viol", family="dist", k=self.desc.get("k", 0), op=op, kind=kind, tags=list(self.tags),
                               detail=detail, input=self.desc))

    def merged_consistent(self, ranks_vec, name, tol_rel=1e-12, tol_abs=1e-13):
        """all sharers must hold the same value (type-1 vector); returns merged dict"""
        merged = {}
        for r, d in enumerate(ranks_vec):
            for k, v in d.items():
                self.events += 1
                if k in merged and not close(merged[k][0], v, tol_rel, tol_abs):
                    self.viol("gate." + name, "sharers-disagree", dict(key=list(k), rank_a=merged[k][1], value_a=merged[k][0], rank_b=r, value_b=v))
                    return None
                merged.setdefault(k, (v, r))
        return {k: v[0] for k, v in merged.items()}

    def compare_ref(self, merged, ref, name, tol_rel, tol_abs):
        if merged is None:
            return
        if set(merged.keys()) != set(ref.keys()):
            self.viol("dist." + name, "dof-set-differs", dict(only_dist=len(set(merged) - set(ref)), only_ref=len(set(ref) - set(merged))))
            return
        scale = max([abs(v) for v in ref.values()] + [1e-300])
        for k, v in merged.items():
            self.events += 1
            if not close(v, ref[k], tol_rel, tol_abs * scale):
                self.viol("dist." + name, "differs-from-serial", dict(key=[k[0] * 1e-7, k[1] * 1e-7], distributed=v, serial=ref[k], scale=scale))
                return


def vec_names(ref_ranks):
    return sorted({r["name"] for recs in ref_ranks for r in recs if r.get("t") == "vec"})


def judge_sync(j, ranks, suffix):
    """sync_0 = sum over sharers exactly once, sync_1 = common mean, for the vector component `suffix`"""
    pre = vecs_of(ranks, "sync0_pre" + suffix)
    post = vecs_of(ranks, "sync0_post" + suffix)
    tot, cnt = {}, {}
    for d in pre:
        for k, v in d.items():
            tot[k] = tot.get(k, 0.0) + v
            cnt[k] = cnt.get(k, 0) + 1
    for r, d in enumerate(post):
        for k, v in d.items():
            j.events += 1
            if not close(v, tot[k], 1e-13, 1e-13 * cnt[k]):
                j.viol("gate.sync_0", "not-sum-over-sharers", dict(component=suffix, key=[k[0] * 1e-7, k[1] * 1e-7], rank=r, got=v, expected_sum=tot[k],
                                                                 sharers=cnt[k], pre_values=[p.get(k) for p in pre if k in p]))
                break
    pre = vecs_of(ranks, "sync1_pre" + suffix)
    post = vecs_of(ranks, "sync1_post" + suffix)
    tot, cnt = {}, {}
    for d in pre:
        for k, v in d.items():
            tot[k] = tot.get(k, 0.0) + v
            cnt[k] = cnt.get(k, 0) + 1
    for r, d in enumerate(post):
        for k, v in d.items():
            j.events += 1
            if not close(v, tot[k] / cnt[k], 1e-13, 1e-13):
                j.viol("gate.sync_1", "not-common-value", dict(component=suffix, key=[k[0] * 1e-7, k[1] * 1e-7], rank=r, got=v,
                                                             expected_mean=tot[k] / cnt[k], sharers=cnt[k]))
                break


def judge_transfers(j, ranks, ref_ranks):
    """restriction / prolongation dumps of every level pair (names rest_to_L*, prol_*; component suffixes allowed)"""
    # grid transfer across all level pairs (incl. layer boundaries: muxer join/split, ghost send/recv)
    names = set()
    for recs in ref_ranks:
        for r in recs:
            if r.get("t") == "vec" and (r["name"].startswith("rest_to_L") or r["name"].startswith("prol_")):
                names.add(r["name"])
    for name in sorted(names):
        vs = vecs_of(ranks, name)
        if not any(vs):
            # the distributed hierarchy legitimately has fewer levels than the serial one (no level below the
            # partitioning level): nothing to compare
            continue
        m = j.merged_consistent(vs, name, 1e-11, 1e-12)
        j.compare_ref(m, vecs_of(ref_ranks, name)[0], name, 1e-10, 1e-12)
        # (only on meshes without boundary charts: chart adaption moves fine boundary vertices, so the fine space does not
        #  contain the coarse one there and the clause 'same function on the fine mesh' does not apply at those DOFs)
        if name.startswith("prol_lin_to_L") and m is not None and j.desc.get("mesh") in NESTED_MESHES:
            # prolongating a function of the coarse space must give its fine interpolant (computed on the same ranks)
            exp = j.merged_consistent(vecs_of(ranks, name.replace("prol_lin_to_L", "lin_interp_L")), "lin_interp", 1e-12, 1e-13)
            if exp is not None:
                for k, v in m.items():
                    j.events += 1
                    if k not in exp or not close(v, exp[k], 1e-11, 1e-12):
                        j.viol("transfer.prol_lin", "not-the-fine-interpolant", dict(key=[k[0] * 1e-7, k[1] * 1e-7], got=v, expected=exp.get(k), name=name))
                        break


def judge_stokes(j, ranks, ref_ranks, nprocs):
    """blocked velocity + scalar pressure (tuple vector): syncs, dot/norms, saddle-point matvec"""
    sc = scalars_of(ranks)
    ref_sc = scalars_of(ref_ranks)[0]
    for suf in (".v0", ".v1", ".p"):
        judge_sync(j, ranks, suf)
        for name, rel, ab in (("u", 0, 0), ("w", 0, 0), ("A_u", 1e-11, 1e-12), ("w_minus_half_A_u", 1e-11, 1e-12), ("w_minus_half_A_u_aliased", 1e-11, 1e-12)):
            m = j.merged_consistent(vecs_of(ranks, name + suf), name + suf, 1e-12, 1e-13)
            j.compare_ref(m, vecs_of(ref_ranks, name + suf)[0], name + suf, rel, ab)
    for name, (rel, ab) in {"dot_u_w": (1e-11, 1e-12), "norm2_u": (1e-12, 0), "norm2sqr_w": (1e-12, 0), "max_abs_u": (0, 0)}.items():
        vals = [s.get(name) for s in sc]
        j.events += 1
        if any(v is None for v in vals) or name not in ref_sc:
            j.viol("dist." + name, "scalar-missing", dict(values=vals))
        elif any(v != vals[0] for v in vals):
            j.viol("dist." + name, "ranks-disagree", dict(values=vals))
        elif not close(vals[0], ref_sc[name], rel, ab):
            j.viol("dist." + name, "differs-from-serial", dict(distributed=vals[0], serial=ref_sc[name], nprocs=nprocs))
    # three-component tuple vector over a TupleMirror<V,P,P> gate
    for suf in (".t3.v0", ".t3.v1", ".t3p", ".t3q"):
        judge_sync(j, ranks, suf)
        for name in ("u", "w"):
            m = j.merged_consistent(vecs_of(ranks, name + suf), name + suf, 1e-12, 1e-13)
            j.compare_ref(m, vecs_of(ref_ranks, name + suf)[0], name + suf, 0, 0)
    dot3 = 0.0
    nrm3 = 0.0
    for suf in (".t3.v0", ".t3.v1", ".t3p", ".t3q"):
        ru, rw = vecs_of(ref_ranks, "u" + suf)[0], vecs_of(ref_ranks, "w" + suf)[0]
        dot3 += math.fsum(ru[k] * rw[k] for k in ru)
        nrm3 += math.fsum(v * v for v in ru.values())
    for name, exp, rel, ab in (("t3_dot_u_w", dot3, 1e-11, 1e-12), ("t3_norm2_u", math.sqrt(nrm3), 1e-12, 0)):
        vals = [s_.get(name) for s_ in sc]
        j.events += 1
        if any(v is None for v in vals):
            j.viol("dist." + name, "scalar-missing", dict(values=vals))
        elif any(v != vals[0] for v in vals):
            j.viol("dist." + name, "ranks-disagree", dict(values=vals))
        elif not close(vals[0], exp, rel, ab):
            j.viol("dist." + name, "differs-from-recomputed", dict(distributed=vals[0], recomputed=exp, nprocs=nprocs))
    # tuple grid transfers across every level pair (muxer join / split of TupleMirror buffers at layer boundaries)
    judge_transfers(j, ranks, ref_ranks)
    # recomputed from the undecomposed (serial) vectors
    dot = 0.0
    nrm = 0.0
    for suf in (".v0", ".v1", ".p"):
        ru, rw = vecs_of(ref_ranks, "u" + suf)[0], vecs_of(ref_ranks, "w" + suf)[0]
        dot += math.fsum(ru[k] * rw[k] for k in ru)
        nrm += math.fsum(v * v for v in ru.values())
    j.events += 2
    if not close(sc[0].get("dot_u_w", float("nan")), dot, 1e-11, 1e-12):
        j.viol("dist.dot_u_w", "differs-from-recomputed", dict(distributed=sc[0].get("dot_u_w"), recomputed=dot))
    if not close(sc[0].get("norm2_u", float("nan")), math.sqrt(nrm), 1e-12, 0):
        j.viol("dist.norm2_u", "differs-from-recomputed", dict(distributed=sc[0].get("norm2_u"), recomputed=math.sqrt(nrm)))


def judge_run(j, ranks, ref_ranks, nprocs):
    """ranks: logs of the distributed run; ref_ranks: logs of the p=1 run"""
    if j.desc.get("space") == "stokes":
        return judge_stokes(j, ranks, ref_ranks, nprocs)
    sc = scalars_of(ranks)
    ref_sc = scalars_of(ref_ranks)[0]
    # --- sync_0: sum over sharers exactly once
    pre = vecs_of(ranks, "sync0_pre")
    post = vecs_of(ranks, "sync0_post")
    tot, cnt = {}, {}
    for d in pre:
        for k, v in d.items():
            tot[k] = tot.get(k, 0.0) + v
            cnt[k] = cnt.get(k, 0) + 1
    for r, d in enumerate(post):
        for k, v in d.items():
            j.events += 1
            if not close(v, tot[k], 1e-13, 1e-13 * cnt[k]):
                j.viol("gate.sync_0", "not-sum-over-sharers", dict(key=[k[0] * 1e-7, k[1] * 1e-7], rank=r, got=v, expected_sum=tot[k], sharers=cnt[k],
                                                                 pre_values=[p.get(k) for p in pre if k in p]))
                break
    # --- sync_1: average = common value
    pre = vecs_of(ranks, "sync1_pre")
    post = vecs_of(ranks, "sync1_post")
    tot, cnt = {}, {}
    for d in pre:
        for k, v in d.items():
            tot[k] = tot.get(k, 0.0) + v
            cnt[k] = cnt.get(k, 0) + 1
    for r, d in enumerate(post):
        for k, v in d.items():
            j.events += 1
            if not close(v, tot[k] / cnt[k], 1e-13, 1e-13):
                j.viol("gate.sync_1", "not-common-value", dict(key=[k[0] * 1e-7, k[1] * 1e-7], rank=r, got=v, expected_mean=tot[k] / cnt[k], sharers=cnt[k]))
                break
    # number of DOFs: union of keys equals the serial DOF set
    ref_u = vecs_of(ref_ranks, "u")[0]
    # --- consistent vectors vs serial
    for name, rel, ab in (("u", 0, 0), ("w", 0, 0), ("A_u", 1e-11, 1e-12), ("w_minus_half_A_u", 1e-11, 1e-12), ("rhs_post", 1e-11, 1e-12),
                          ("At_u", 1e-11, 1e-12), ("w_minus_half_At_u", 1e-11, 1e-12), ("diag_A", 1e-12, 1e-13),
                          ("w_minus_half_A_u_aliased", 1e-11, 1e-12), ("w_minus_half_At_u_aliased", 1e-11, 1e-12),
                          ("split_b", 0, 0), ("io_w", 1e-14, 1e-15),
                          ("rhs_filtered", 1e-11, 1e-12), ("pcgj_sol", 1e-6, 1e-7), ("pcgmg_sol", 1e-6, 1e-7)):
        if name in ("split_b", "io_w") and not any(vecs_of(ranks, name)):
            continue  # > 2 domain layers: no base levels, splitter part skipped (documented limitation)
        m = j.merged_consistent(vecs_of(ranks, name), name, 1e-9 if "sol" in name else 1e-12, 1e-9 if "sol" in name else 1e-13)
        j.compare_ref(m, vecs_of(ref_ranks, name)[0], name, rel, ab)
    # base splitter: the joined vector exists on the root only and must be the undecomposed vector; the file round trip
    # (join_write_out -> split_read_from) must give back w on every patch
    jn = [d for d in vecs_of(ranks, "join_u") if d]
    j.events += 1
    if not any(vecs_of(ranks, "split_b")):
        pass  # more than 2 domain layers: base levels cannot be kept (documented), the splitter part is skipped by the harness
    elif len(jn) != 1:
        j.viol("splitter.join", "not-exactly-one-root", dict(ranks_with_joined_vector=len(jn)))
    else:
        j.compare_ref(jn[0], ref_u, "splitter.join_u", 1e-14, 1e-15)
    wd = vecs_of(ranks, "w")
    for r, d in enumerate(vecs_of(ranks, "io_w")):
        for k, v in d.items():
            j.events += 1
            # (join converts to type 0 = divides by the number of sharers, and sums the parts again: w/3+w/3+w/3 rounds)
            if k not in wd[r] or not close(v, wd[r][k], 1e-14, 1e-15):
                j.viol("splitter.io", "file-round-trip-differs", dict(key=[k[0] * 1e-7, k[1] * 1e-7], rank=r, got=v, expected=wd[r].get(k)))
                break
    # asynchronous synchronisation = blocking synchronisation of the same input (up to the summation order of the
    # contributions, which follows the message arrival order in both)
    for a, b in (("sync0_async_post", "sync0_post"), ("sync1_async_post", "sync1_post")):
        va, vb = vecs_of(ranks, a), vecs_of(ranks, b)
        for r in range(len(va)):
            j.events += 1
            bad = next((k for k in vb[r] if k not in va[r] or not close(va[r][k], vb[r][k], 1e-13, 1e-13)), None)
            if bad is not None or len(va[r]) != len(vb[r]):
                j.viol("gate." + a, "differs-from-blocking-call", dict(rank=r, key=list(bad) if bad else None, got=va[r].get(bad) if bad else None,
                                                                     expected=vb[r].get(bad) if bad else None))
                break
    # lumped rows (the row sums of a stiffness matrix are rounding noise: the scale is that of the diagonal)
    m = j.merged_consistent(vecs_of(ranks, "lump_A"), "lump_A", 0, 1e-12 * max([abs(v) for v in vecs_of(ref_ranks, "diag_A")[0].values()] + [1e-300]))
    if m is not None:
        ref_l = vecs_of(ref_ranks, "lump_A")[0]
        dsc = max([abs(v) for v in vecs_of(ref_ranks, "diag_A")[0].values()] + [1e-300])
        j.events += 1
        if set(m) != set(ref_l):
            j.viol("dist.lump_A", "dof-set-differs", dict(only_dist=len(set(m) - set(ref_l)), only_ref=len(set(ref_l) - set(m))))
        else:
            bad = next((k for k in m if not abs(m[k] - ref_l[k]) <= 1e-12 * dsc), None)
            if bad is not None:
                j.viol("dist.lump_A", "differs-from-serial", dict(key=[bad[0] * 1e-7, bad[1] * 1e-7], distributed=m[bad], serial=ref_l[bad], scale=dsc))
    # discontinuous P0 space: gate without neighbour mirrors on a communicator with several processes
    du, dw = vecs_of(ranks, "dc_u"), vecs_of(ranks, "dc_w")
    ru, rw = vecs_of(ref_ranks, "dc_u")[0], vecs_of(ref_ranks, "dc_w")[0]
    alld, dup = {}, False
    for d in du:
        for k, v in d.items():
            dup = dup or (k in alld)
            alld[k] = v
    j.events += 1
    if dup or set(alld) != set(ru):
        j.viol("dc.dofs", "cells-not-partitioned", dict(duplicate=dup, only_dist=len(set(alld) - set(ru)), only_ref=len(set(ru) - set(alld))))
    else:
        exp = {"dc_dot_u_w": (math.fsum(ru[k] * rw[k] for k in ru), 1e-12, 1e-13), "dc_norm2_u": (math.sqrt(math.fsum(v * v for v in ru.values())), 1e-12, 0),
               "dc_norm2sqr_w": (math.fsum(v * v for v in rw.values()), 1e-12, 0), "dc_max_abs_u": (max(abs(v) for v in ru.values()), 0, 0),
               "dc_min_abs_u": (min(abs(v) for v in ru.values()), 0, 0)}
        exp["dc_dot_u_w_async"] = exp["dc_dot_u_w"]
        exp["dc_norm2_u_async"] = exp["dc_norm2_u"]
        for name, (val, rel, ab) in exp.items():
            vals = [s_.get(name) for s_ in sc]
            j.events += 1
            if any(v is None for v in vals):
                j.viol("dc." + name, "scalar-missing", dict(values=vals))
            elif any(v != vals[0] for v in vals):
                j.viol("dc." + name, "ranks-disagree", dict(values=vals))
            elif not close(vals[0], val, rel, ab):
                j.viol("dc." + name, "differs-from-recomputed", dict(distributed=vals[0], recomputed=val, nprocs=nprocs))
        for name in ("dc_sync0_post", "dc_sync1_post", "dc_sync0_async_post"):
            for r, d in enumerate(vecs_of(ranks, name)):
                j.events += 1
                if d != du[r]:
                    j.viol("dc." + name, "synchronisation-of-unshared-dofs-is-not-the-identity", dict(rank=r))
                    break
    judge_transfers(j, ranks, ref_ranks)
    # rhs: sum of the pre-sync contributions equals the serial vector
    pre = vecs_of(ranks, "rhs_pre")
    tot = {}
    for d in pre:
        for k, v in d.items():
            tot[k] = tot.get(k, 0.0) + v
    j.compare_ref(tot, vecs_of(ref_ranks, "rhs_pre")[0], "rhs_pre_sum", 1e-11, 1e-12)
    # --- scalars: identical on all ranks, equal to serial
    tols = {"dot_u_w": (1e-11, 1e-12), "norm2_u": (1e-12, 0), "norm2sqr_w": (1e-12, 0), "max_abs_u": (0, 0), "pcgj_status_success": (0, 0),
            "min_abs_u": (0, 0), "max_u": (0, 0), "min_u": (0, 0), "max_abs_u_async": (0, 0), "min_abs_u_async": (0, 0), "max_u_async": (0, 0),
            "min_u_async": (0, 0), "dot_u_w_async": (1e-11, 1e-12), "norm2_u_async": (1e-12, 0), "norm2sqr_w_async": (1e-12, 0),
            "pcgj_num_iter": (0, 1.01), "pcgj_def_init": (1e-10, 0), "pcgj_def_iter1": (1e-8, 0),
            "pcgj_def_iter2": (1e-8, 0), "pcgj_def_iter3": (1e-8, 0), "pcgj_def_iter5": (1e-7, 0), "pcgj_def_iter8": (1e-6, 0),
            "pcgj_err_h0": (1e-6, 1e-9), "pcgj_err_h1": (1e-6, 1e-9), "pcgmg_status_success": (0, 0), "pcgmg_def_init": (1e-10, 0),
            "pcgmg_err_h0": (1e-6, 1e-9), "pcgmg_err_h1": (1e-6, 1e-9)}
    for name, (rel, ab) in tols.items():
        vals = [s.get(name) for s in sc]
        j.events += 1
        if any(v is None for v in vals) or name not in ref_sc:
            j.viol("dist." + name, "scalar-missing", dict(values=vals))
            continue
        if any(v != vals[0] for v in vals):
            j.viol("dist." + name, "ranks-disagree", dict(values=vals))
            continue
        if name.startswith("pcgj_def_iter") and max(vals[0], ref_sc[name]) <= 1e-12 * max(ref_sc.get("pcgj_def_init", 0.0), 1e-300):
            continue  # both runs are at the rounding level of the initial defect already (tiny problem): pure noise
        if not close(vals[0], ref_sc[name], rel, ab):
            j.viol("dist." + name, "differs-from-serial", dict(distributed=vals[0], serial=ref_sc[name], nprocs=nprocs))
    for a, b in (("dot_u_w_async", "dot_u_w"), ("norm2_u_async", "norm2_u"), ("norm2sqr_w_async", "norm2sqr_w"), ("max_abs_u_async", "max_abs_u"),
                 ("min_abs_u_async", "min_abs_u"), ("max_u_async", "max_u"), ("min_u_async", "min_u")):
        j.events += 1
        if sc[0].get(a) != sc[0].get(b):
            j.viol("dist." + a, "differs-from-blocking-call", dict(async_value=sc[0].get(a), blocking=sc[0].get(b)))
    # extrema recomputed from the undecomposed vector
    for name, exp in (("min_abs_u", min(abs(v) for v in ref_u.values())), ("max_u", max(ref_u.values())), ("min_u", min(ref_u.values()))):
        j.events += 1
        if sc[0].get(name) != exp:
            j.viol("dist." + name, "differs-from-recomputed", dict(distributed=sc[0].get(name), recomputed=exp))
    # final PCG defect: after O(100) iterations the rounding differences of the summation orders have been amplified
    # by the Krylov recurrences, so the last defect is only comparable in magnitude; it must satisfy the stopping
    # criterion of the run (tol_rel 1e-9 w.r.t. the initial defect, which IS compared tightly) and lie within a
    # factor 10 of the serial one
    vals = [s_.get("pcgj_def_final") for s_ in sc]
    j.events += 1
    if any(v is None for v in vals) or "pcgj_def_final" not in ref_sc:
        j.viol("dist.pcgj_def_final", "scalar-missing", dict(values=vals))
    elif any(v != vals[0] for v in vals):
        j.viol("dist.pcgj_def_final", "ranks-disagree", dict(values=vals))
    else:
        d0 = sc[0].get("pcgj_def_init", 0.0)
        if sc[0].get("pcgj_status_success") == 1.0 and not (vals[0] <= 1e-9 * d0 * 1.0001):
            j.viol("dist.pcgj_def_final", "success-but-criterion-not-met", dict(distributed=vals[0], def_init=d0))
        # (only when the serial run did not land at the rounding level of the initial defect: a tiny problem may be solved
        #  "exactly" by one run and merely to the tolerance by the other)
        if ref_sc["pcgj_def_final"] > 1e-12 * max(d0, 1e-300) and not (0.1 * ref_sc["pcgj_def_final"] <= vals[0] <= 10 * ref_sc["pcgj_def_final"] or vals[0] <= 1e-300):
            j.viol("dist.pcgj_def_final", "differs-from-serial", dict(distributed=vals[0], serial=ref_sc["pcgj_def_final"], nprocs=nprocs))
    # the u dump of the serial run covers all dofs: dot/norm of the undecomposed vector recomputed by the checker
    ref_w = vecs_of(ref_ranks, "w")[0]
    dot = math.fsum(ref_u[k] * ref_w[k] for k in ref_u)
    nrm = math.sqrt(math.fsum(v * v for v in ref_u.values()))
    j.events += 2
    if not close(sc[0].get("dot_u_w", float("nan")), dot, 1e-11, 1e-12):
        j.viol("dist.dot_u_w", "differs-from-recomputed", dict(distributed=sc[0].get("dot_u_w"), recomputed=dot))
    if not close(sc[0].get("norm2_u", float("nan")), nrm, 1e-12, 0):
        j.viol("dist.norm2_u", "differs-from-recomputed", dict(distributed=sc[0].get("norm2_u"), recomputed=nrm))


# (mesh file, finest levels, coarsest level, spaces usable on it)
MESHES = [("unit-square-quad.xml", [4, 3], 0, ["q1", "q2", "stokes"]), ("unit_circle_quad_5.xml", [2, 3], 0, ["q1", "q2", "stokes"]),
          ("l-shape-quad.xml", [3], 0, ["q1", "q2", "stokes"]), ("square_circle_hole_quad_9.xml", [2], 0, ["q1", "q2"]),
          ("unit-square-quad-aniso.xml", [3], 0, ["q1", "q2"]), ("unit-square-tria.xml", [3, 4], 0, ["tria1", "tria2"]),
          ("l-shape-tria.xml", [3], 0, ["tria1", "tria2"]), ("unit-cube-hexa.xml", [2, 3], 0, ["hexa1"])]


NESTED_MESHES = ("unit-square-quad.xml", "unit-square-quad-aniso.xml", "l-shape-quad.xml", "unit-square-tria.xml", "l-shape-tria.xml",
                 "unit-cube-hexa.xml")


def level_string(rng, lmax, lmin, p, layered):
    """desired-level string: 'L 0' or multi-layered 'L M:q ... 0' with strictly descending process counts q < p"""
    if not layered or p < 2 or lmax - lmin < 2:
        return "%d %d" % (lmax, lmin)
    parts = ["%d" % lmax]
    q, lvl = p, lmax
    nlayers = 1 if (p < 4 or lmax - lmin < 3) else rng.choice([1, 2])
    for _ in range(nlayers):
        if q < 2 or lvl - 1 <= lmin:
            break
        lvl = rng.randrange(lmin + 1, lvl)
        q = rng.choice([d for d in range(1, q) if q % d == 0])  # layer process counts must divide the previous count
        parts.append("%d:%d" % (lvl, q))
    parts.append("%d" % lmin)
    return " ".join(parts)


def mpirun(binp, nprocs, args, env, timeout):
    import signal
    cmd = ["mpirun", "--oversubscribe", "-n", str(nprocs), binp] + args
    p = subprocess.Popen(cmd, stdout=subprocess.PIPE, stderr=subprocess.PIPE, text=True, env=env, start_new_session=True)
    try:
        out, err = p.communicate(timeout=timeout)
        return p.returncode, (out[-3000:] + err[-3000:])
    except subprocess.TimeoutExpired:
        try:
            os.killpg(p.pid, signal.SIGKILL)
        except OSError:
            pass
        p.communicate()
        return None, "timeout"


def run(pid, spec, unit, binp, tier, seed, workdir, overlay, scale):
    res = sup.empty_result()
    rng = random.Random(seed * 7919 + 13)
    env = build.sanitizer_env("mpi")
    nconf = max(1, int((3 if tier == "quick" else 7) * scale))
    nsched = 2 if tier == "quick" else 4
    plist_quick = [2, 3, 4, 7]
    arrival_orders = {}
    samples = []
    confs = []
    for c in range(nconf):
        # quick: configuration 0 = Q1 on the unit square, 1 = Stokes (blocked + tuple vectors), 2 = a triangle or hexahedral mesh
        if tier == "quick" and c < 3:
            mesh, lmaxs, lmin, spaces = (MESHES[0], MESHES[0], MESHES[5 + rng.randrange(3)])[c]
            space = ("q1", "stokes", rng.choice(spaces))[c]
        else:
            mesh, lmaxs, lmin, spaces = MESHES[rng.randrange(len(MESHES))]
            space = rng.choice(spaces)
        confs.append(dict(k=c, mesh=mesh, lmax=rng.choice(lmaxs), lmin=lmin, space=space,
                          parti=rng.choice(["naive", "2level genetic naive", "genetic naive"]) if c else "2level naive",
                          data_seed=rng.randrange(1, 10 ** 6)))
    def do_conf(conf):
        rng = random.Random(seed * 104729 + conf["k"] * 7 + 1)
        res = sup.empty_result()
        arrival_orders = {}
        samples = []
        def args_for(p, layered):
            lv = level_string(rng, conf["lmax"], conf["lmin"], p, layered)
            return lv, ["--mesh", os.path.join(REPO, "data/meshes", conf["mesh"]), "--level"] + lv.split() + \
                ["--space", conf["space"], "--data-seed", str(conf["data_seed"]), "--parti-type"] + conf["parti"].split()
        refp = os.path.join(workdir, "c%d-ref" % conf["k"])
        _, base = args_for(1, False)
        rc, out = mpirun(binp, 1, base + ["--out", refp, "--sched-seed", "0"], env, 600)
        if rc != 0 and not ("FATAL ERROR" in out or "ABORT" in out or "Sanitizer" in out or "terminate called" in out):
            # the launcher failed or the process was killed from outside (loaded machine): try once more before giving up
            rc, out = mpirun(binp, 1, base + ["--out", refp, "--sched-seed", "0"], env, 900)
        ref, err = load_run(refp, 1) if rc == 0 else (None, "rc=%s %s" % (rc, out[-1500:]))
        if ref is None:
            if rc not in (0, None) and ("FATAL ERROR" in out or "ABORT" in out or "Sanitizer" in out or "terminate called" in out):
                # the single-process program itself dies inside FEAT (assertion / abort): that is a violation of the property
                # for p = 1, not a problem of the harness
                res["cases"] += 1
                res["viols"].append(dict(t="viol", family="dist", k=conf["k"], op="dist.run", kind="abort",
                                         tags=["mesh:" + conf["mesh"], "space:" + conf["space"], "nprocs:1"],
                                         detail=dict(rc=rc, output=out[-2500:], config=conf)))
            else:
                res["harness_errors"].append("C13 reference run failed for %s: %s" % (json.dumps(conf), err))
            return res, arrival_orders, samples
        plist = plist_quick if tier == "quick" else sorted(set([2, 3, 4, 5, 6, 7, 8] + rng.sample(range(9, 17), 3)))
        ndofs = len(vecs_of(ref, "u")[0]) or sum(len(vecs_of(ref, "u" + q)[0]) for q in (".v0", ".v1", ".p"))
        for p in plist:
            first_sol = None
            lv, base = args_for(p, rng.random() < 0.6)
            for s in range(nsched):
                sched = 0 if s == 0 else rng.randrange(1, 10 ** 9)
                tags = ["mesh:" + conf["mesh"], "space:" + conf["space"], "nprocs:%d" % p, "levels:" + lv.replace(" ", "_"),
                        "parti:" + conf["parti"].replace(" ", "+"), "sched:" + ("native" if sched == 0 else "perturbed")]
                desc = dict(conf, level=lv, nprocs=p, sched_seed=sched, cmd="mpirun -n %d <bin> %s --sched-seed %d" % (p, " ".join(base), sched))
                pref = os.path.join(workdir, "c%d-p%d-s%d" % (conf["k"], p, s))
                res["cases"] += 1
                sig = "|".join(tags)
                rc, out = mpirun(binp, p, base + ["--out", pref, "--sched-seed", str(sched)], env, 900)
                if rc not in (0, None) and not ("FATAL ERROR" in out or "ABORT" in out or "Sanitizer" in out or "terminate called" in out
                                                or "partition" in out.lower()):
                    # died without any FEAT / sanitizer report (launcher problem, killed from outside): once more
                    res["counters"]["mpirun_retried_after_unexplained_exit"] = res["counters"].get("mpirun_retried_after_unexplained_exit", 0) + 1
                    rc, out = mpirun(binp, p, base + ["--out", pref, "--sched-seed", str(sched)], env, 900)
                j = Judge(tags, desc)
                if rc is None:
                    res["incs"].append(dict(t="inc", family="dist", k=conf["k"], op="mpirun", why="watchdog expired: " + json.dumps(desc)))
                    continue
                if rc != 0:
                    # a partitioner may legitimately refuse a process count (e.g. more ranks than cells): documented failure
                    if "could not find a suitable partitioning" in out.lower() or "no suitable partition" in out.lower():
                        res["trivial"] += 1
                        continue
                    j.viol("dist.run", "abort", dict(rc=rc, output=out[-2500:]))
                    res["viols"].extend(j.viols)
                    continue
                ranks, err = load_run(pref, p)
                if ranks is None:
                    j.viol("dist.run", "incomplete-log", dict(error=err))
                    res["viols"].extend(j.viols)
                    continue
                # FEAT may raise the finest level when the desired level string cannot be partitioned on p processes (the
                # partitioning level must hold enough cells); the one-process run then lives on another mesh and nothing
                # can be compared: such a configuration is counted, not judged
                def finest(recs):
                    info = next((r_ for r_ in recs[0] if r_.get("t") == "info"), {})
                    m_ = re.match(r"\s*(\d+)", str(info.get("chosen_levels", "")))
                    return int(m_.group(1)) if m_ else None
                if finest(ranks) != finest(ref):
                    res["trivial"] += 1
                    res["counters"]["skipped_finest_level_adjusted_by_the_partitioner"] = res["counters"].get("skipped_finest_level_adjusted_by_the_partitioner", 0) + 1
                    continue
                judge_run(j, ranks, ref, p)
                # arrival orders observed at the synchronisation points
                for r, w in enumerate(waitany_of(ranks)):
                    for phase, ready, chosen in w:
                        if len(ready) > 1:
                            res["counters"]["waitany_with_choice"] = res["counters"].get("waitany_with_choice", 0) + 1
                    seq = tuple((ph, ch) for ph, rd, ch in w if ph in ("sync0", "sync1", "matvec", "rhs_sync0", "pcg_jacobi"))
                    if seq:
                        arrival_orders.setdefault((conf["k"], p, r), set()).add(hashlib.md5(repr(seq).encode()).hexdigest())
                # schedule independence: solution under another arrival order equals the first one up to rounding
                sol = j.merged_consistent(vecs_of(ranks, "pcgj_sol"), "pcgj_sol", 1e-9, 1e-9) if conf["space"] != "stokes" else None
                if sol:
                    if first_sol is None:
                        first_sol = sol
                    else:
                        j.compare_ref(sol, first_sol, "pcgj_sol_vs_other_arrival_order", 1e-7, 1e-8)
                res["events"] += j.events
                res["viols"].extend(j.viols)
                res["sigs"][sig] = res["sigs"].get(sig, 0) + 1
                res["ops"]["mpirun"] = res["ops"].get("mpirun", 0) + 1
                info = next((r for r in ranks[0] if r.get("t") == "info"), {})
                if len(samples) < 4:
                    samples.append(dict(t="sample", family="dist", k=conf["k"], op="mpirun", tags=tags,
                                        desc=dict(desc, ndofs=ndofs, chosen_levels=info.get("chosen_levels"), parti=info.get("parti"))))
                for f in glob.glob(pref + ".*.jsonl"):
                    os.remove(f)
        return res, arrival_orders, samples

    from concurrent.futures import ThreadPoolExecutor
    with ThreadPoolExecutor(max_workers=(1 if tier == "quick" else 3)) as ex:
        for r, ao, sm in ex.map(do_conf, confs):
            sup.merge(res, r)
            for k, v in ao.items():
                arrival_orders.setdefault(k, set()).update(v)
            samples.extend(sm)
    samples = samples[:4]
    res["samples"] = samples
    res["counters"]["distinct_arrival_orders_observed"] = sum(len(v) for v in arrival_orders.values())
    res["counters"]["rank_sync_streams"] = len(arrival_orders)
    return res


def replay(w, spec, unit):
    rec = w["record"]
    print(json.dumps(rec, indent=1)[:6000])
    print("re-run with:", rec.get("input", {}).get("cmd"))
    return 1
