"""Judge: known-findings matching, witness files, evidence, verdict and exit code."""
import json, os, sys, time, hashlib

VERIF = os.path.dirname(os.path.dirname(os.path.abspath(__file__)))
KNOWN = os.path.join(VERIF, "known_findings.json")


def load_known(pid):
    try:
        data = json.load(open(KNOWN))
    except OSError:
        return []
    return [e for e in data.get("findings", []) if e.get("property") == pid]


def matches(entry, v):
    if entry.get("status") != "known":
        return False
    if entry.get("op") != v.get("op"):
        return False
    vk = v.get("kind", "")
    # 'kind' of an entry may list alternatives separated by '|' (e.g. a null dereference shows up as asan:SEGV or
    # ubsan depending on which access comes first); a trailing '*' matches a prefix
    if not any(ek == vk or (ek.endswith("*") and vk.startswith(ek[:-1])) for ek in entry.get("kind", "").split("|")):
        return False
    tags = set(v.get("tags", []))
    if not all(t in tags for t in entry.get("when", [])):
        return False
    return True


def viol_key(v):
    """identity of a violation for de-duplication in the report (not for suppression)."""
    d = v.get("detail", {}) if isinstance(v.get("detail"), dict) else {}
    return (v.get("op"), v.get("kind"), d.get("stack", ""), tuple(sorted(v.get("tags", []))))


def conclude(pid, tier, seed, level, res, spec, wall, extra_cov=None, write=True):
    """Prints the verdict lines, writes witnesses + evidence, returns the exit code."""
    known = load_known(pid)
    repdir = os.path.join(VERIF, "replays", pid) if write else os.path.join(VERIF, ".cache", "tmp", "selftest-replays", pid)
    os.makedirs(repdir, exist_ok=True)
    for f in os.listdir(repdir):
        if f.startswith(tier + "-"):
            os.remove(os.path.join(repdir, f))
    new, hit = [], {}
    seen = set()
    for v in res["viols"]:
        e = next((e for e in known if matches(e, v)), None)
        if e is not None:
            hit.setdefault(e["id"], [e, 0])
            hit[e["id"]][1] += 1
            continue
        key = viol_key(v)
        if key in seen and len(new) >= 10:
            continue
        seen.add(key)
        new.append(v)
    for eid, (e, n) in sorted(hit.items()):
        print("KNOWN-FINDING: property=%s %s [%s; observed %d times in this run]" % (pid, e["text"], eid, n))
    printed = 0
    for i, v in enumerate(new):
        name = "%s-%s-s%d-k%s-%d.json" % (tier, v.get("family", "x"), seed, v.get("k", "x"), i)
        path = os.path.join(repdir, name)
        w = dict(property=pid, tier=tier, seed=seed, unit=v.get("unit"), record=v)
        with open(path, "w") as f:
            json.dump(w, f, indent=1)
        if printed < 25:
            d = v.get("detail")
            ds = json.dumps(d)[:300] if d else ""
            print("VIOLATION property=%s replay=%s op=%s kind=%s tags=%s %s" % (
                pid, path, v.get("op"), v.get("kind"), ",".join(v.get("tags", [])), ds))
            printed += 1
    if len(new) > printed:
        print("... %d further violation witnesses written under %s" % (len(new) - printed, repdir))
    min_events = spec.get("min_events", {}).get(tier, 1)
    min_cases = spec.get("min_cases", {}).get(tier, 1)
    herr = list(res.get("harness_errors", []))
    if res["events"] < min_events:
        herr.append("only %d monitored events observed (minimum %d)" % (res["events"], min_events))
    if res["cases"] < min_cases:
        herr.append("only %d cases executed (minimum %d)" % (res["cases"], min_cases))
    nontriv = len(res["sigs"])
    if nontriv < 2:
        herr.append("fewer than 2 distinct non-trivial case classes observed")
    samples = [dict(family=s.get("family"), k=s.get("k"), op=s.get("op"), tags=s.get("tags"), desc=s.get("desc"))
               for s in res["samples"][:6]]
    if not samples:
        samples = [dict(note="class signatures observed", sigs=sorted(res["sigs"])[:5])]
    top_sigs = sorted(res["sigs"].items(), key=lambda x: -x[1])
    cov = dict(evaluations=res["cases"], distinct_nontrivial=nontriv, rule=spec.get("rule", ""),
               samples=samples, events=res["events"], trivial_cases=res["trivial"],
               ops=dict(sorted(res["ops"].items())), counters=dict(sorted(res["counters"].items())),
               inconclusive=len(res["incs"]), inconclusive_samples=res["incs"][:5],
               worker_crashes_attributed=res["crashes"],
               known_findings_observed={k: v[1] for k, v in hit.items()},
               new_violations=len(new), class_signatures_sample=[s for s, _ in top_sigs[:12]],
               exhaustive=bool(spec.get("exhaustive", False)), harness_errors=herr[:5])
    if extra_cov:
        cov.update(extra_cov)
    ev = dict(property_id=pid, tier=tier, seed=seed, level=level, coverage=cov,
              assumptions=spec.get("assumptions", []), wall_s=round(wall, 2), violations=len(new))
    evdir = os.path.join(VERIF, "evidence") if write else os.path.join(VERIF, ".cache", "tmp", "selftest-evidence")
    os.makedirs(evdir, exist_ok=True)
    with open(os.path.join(evdir, pid + ".json"), "w") as f:
        json.dump(ev, f, indent=1, sort_keys=True)
        f.write("\n")
    print("%s %s seed=%d: cases=%d events=%d classes=%d inconclusive=%d known=%d new_violations=%d wall=%.0fs" % (
        pid, tier, seed, res["cases"], res["events"], nontriv, len(res["incs"]), sum(v[1] for v in hit.values()),
        len(new), wall))
    if new:
        return 1
    if herr:
        for h in herr:
            print("HARNESS-ERROR property=%s %s" % (pid, h.replace("\n", " | ")[:600]))
        return 2
    print("HELD property=%s on everything observed" % pid)
    return 0
